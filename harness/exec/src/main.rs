//! wsx — E1 executor (DESIGN.md 3.2).
//!
//! A deliberately dumb process: it reads one command per line
//! (tab-separated `key=value`, bytes in hex), performs exactly one call of the
//! public `wow_srp` API on real library objects kept in a handle table, wraps
//! the call in `catch_unwind`, and writes exactly one event line:
//!
//!   <status>\tid=<id>\t<k>=<v>...\trng=<draw>,<draw>,...
//!
//! status: ok | err | panic | bad   (bad = the *driver* did something wrong)
//!
//! No verdict is taken here. All oracles live in the driver (pymon).
//! The same source is compiled twice: against num-bigint (`wsx`) and against
//! rug/GMP (`wsx-rug`).

use std::cell::RefCell;
use std::collections::HashMap;
use std::io::{BufRead, BufWriter, Write};
use std::panic::{catch_unwind, AssertUnwindSafe};

use rand::verif_hook as hook;
use wow_srp::client::{SrpClient, SrpClientChallenge};
use wow_srp::error::{InvalidPublicKeyError, NormalizedStringError};
use wow_srp::normalized_string::NormalizedString;
use wow_srp::server::{SrpProof, SrpServer, SrpVerifier};
use wow_srp::PublicKey;
use wow_srp::{tbc_header, vanilla_header, wrath_header};

thread_local! {
    static LAST_PANIC: RefCell<Option<String>> = RefCell::new(None);
}

#[allow(clippy::large_enum_variant)]
#[derive(Clone)]
enum Obj {
    Ver(SrpVerifier),
    Proof(SrpProof),
    Server(SrpServer),
    Chal(SrpClientChallenge),
    Client(SrpClient),
    VSeed(vanilla_header::ProofSeed),
    TSeed(tbc_header::ProofSeed),
    WSeed(wrath_header::ProofSeed),
    VCrypto(vanilla_header::HeaderCrypto),
    TCrypto(tbc_header::HeaderCrypto),
    WClient(wrath_header::ClientCrypto),
    WServer(wrath_header::ServerCrypto),
}

fn hex(b: &[u8]) -> String {
    const T: &[u8; 16] = b"0123456789abcdef";
    let mut s = String::with_capacity(b.len() * 2);
    for x in b {
        s.push(T[(x >> 4) as usize] as char);
        s.push(T[(x & 15) as usize] as char);
    }
    s
}

fn unhex(s: &str) -> Result<Vec<u8>, String> {
    let b = s.as_bytes();
    if b.len() % 2 != 0 {
        return Err(format!("odd hex length: {}", s));
    }
    fn nib(c: u8) -> Result<u8, String> {
        match c {
            b'0'..=b'9' => Ok(c - b'0'),
            b'a'..=b'f' => Ok(c - b'a' + 10),
            b'A'..=b'F' => Ok(c - b'A' + 10),
            _ => Err(format!("bad hex char {}", c as char)),
        }
    }
    let mut out = Vec::with_capacity(b.len() / 2);
    for p in b.chunks(2) {
        out.push(nib(p[0])? << 4 | nib(p[1])?);
    }
    Ok(out)
}

struct Ctx {
    objs: HashMap<u64, Obj>,
    // results of earlier commands, addressable as $<id>.<field>[^<hexmask>]
    store: HashMap<(u64, String), Vec<u8>>,
    store_order: std::collections::VecDeque<(u64, String)>,
}

type Res = Result<Vec<(&'static str, String)>, Reply>;

enum Reply {
    Err(Vec<(&'static str, String)>),
    Bad(String),
}

fn bad<T>(s: impl Into<String>) -> Result<T, Reply> {
    Err(Reply::Bad(s.into()))
}

struct Args<'a> {
    m: HashMap<&'a str, &'a str>,
}

impl<'a> Args<'a> {
    fn s(&self, k: &str) -> Result<&'a str, Reply> {
        match self.m.get(k) {
            Some(v) => Ok(*v),
            None => bad(format!("missing arg {}", k)),
        }
    }
    fn opt(&self, k: &str) -> Option<&'a str> {
        self.m.get(k).copied()
    }
    fn u64(&self, k: &str) -> Result<u64, Reply> {
        self.s(k)?
            .parse::<u64>()
            .map_err(|e| Reply::Bad(format!("arg {}: {}", k, e)))
    }
    fn u32(&self, k: &str) -> Result<u32, Reply> {
        self.s(k)?
            .parse::<u32>()
            .map_err(|e| Reply::Bad(format!("arg {}: {}", k, e)))
    }
    fn u8(&self, k: &str) -> Result<u8, Reply> {
        self.s(k)?
            .parse::<u8>()
            .map_err(|e| Reply::Bad(format!("arg {}: {}", k, e)))
    }
    fn flag(&self, k: &str) -> bool {
        matches!(self.m.get(k), Some(&"1"))
    }
    fn bytes(&self, ctx: &Ctx, k: &str) -> Result<Vec<u8>, Reply> {
        let v = self.s(k)?;
        if let Some(r) = v.strip_prefix('$') {
            // $id.field[^mask]
            let (r, mask) = match r.split_once('^') {
                Some((a, b)) => (a, Some(b)),
                None => (r, None),
            };
            let (id, field) = match r.split_once('.') {
                Some(x) => x,
                None => return bad(format!("bad ref {}", v)),
            };
            let id = id
                .parse::<u64>()
                .map_err(|e| Reply::Bad(format!("ref {}: {}", v, e)))?;
            let mut b = match ctx.store.get(&(id, field.to_string())) {
                Some(b) => b.clone(),
                None => return bad(format!("unresolved ref {}", v)),
            };
            if let Some(mask) = mask {
                let m = unhex(mask).map_err(Reply::Bad)?;
                for (i, x) in m.iter().enumerate() {
                    if i < b.len() {
                        b[i] ^= x;
                    }
                }
            }
            Ok(b)
        } else {
            unhex(v).map_err(Reply::Bad)
        }
    }
    fn arr<const N: usize>(&self, ctx: &Ctx, k: &str) -> Result<[u8; N], Reply> {
        let b = self.bytes(ctx, k)?;
        if b.len() != N {
            return bad(format!("arg {}: need {} bytes, got {}", k, N, b.len()));
        }
        let mut a = [0u8; N];
        a.copy_from_slice(&b);
        Ok(a)
    }
    fn string(&self, ctx: &Ctx, k: &str) -> Result<String, Reply> {
        let b = self.bytes(ctx, k)?;
        String::from_utf8(b).map_err(|e| Reply::Bad(format!("arg {}: {}", k, e)))
    }
    fn ns(&self, ctx: &Ctx, k: &str) -> Result<NormalizedString, Reply> {
        let s = self.string(ctx, k)?;
        // every constructor / conversion of the type is a legitimate way to build a credential: the route is a function of
        // the text (so a replay takes the same route) and differs between the spellings of one credential
        let mut h: u32 = 0x811c_9dc5;
        for b in s.bytes().chain(k.bytes()) {
            h = (h ^ b as u32).wrapping_mul(0x0100_0193);
        }
        let r = match (h >> 7) % 5 {
            0 => NormalizedString::new(&s),
            1 => NormalizedString::from_str(&s),
            2 => NormalizedString::from_string(s.clone()),
            3 => NormalizedString::try_from(s.as_str()),
            _ => NormalizedString::try_from(s.clone()),
        };
        // the drivers only send strings that are valid by the rule (1..=16 bytes of 0x20..=0x7E): a refusal is the library's doing
        r.map_err(|e| Reply::Err(vec![("stage", "credential".into()), ("arg", k.to_string()), ("text", hex(s.as_bytes())), ("msg", e.to_string())]))
    }
}

fn pk_err(e: &InvalidPublicKeyError) -> &'static str {
    match e {
        InvalidPublicKeyError::PublicKeyIsZero => "zero",
        InvalidPublicKeyError::PublicKeyModLargeSafePrimeIsZero => "modn",
    }
}

impl Ctx {
    fn take(&mut self, h: u64, keep: bool) -> Result<Obj, Reply> {
        if keep {
            match self.objs.get(&h) {
                Some(o) => Ok(o.clone()),
                None => bad(format!("no object {}", h)),
            }
        } else {
            match self.objs.remove(&h) {
                Some(o) => Ok(o),
                None => bad(format!("no object {}", h)),
            }
        }
    }
}

fn ver_fields(v: &SrpVerifier) -> Vec<(&'static str, String)> {
    vec![
        ("user", hex(v.username().as_bytes())),
        // the same name as an application holding the credential object would write it to storage: through Display
        (
            "user_display",
            match NormalizedString::new(v.username()) {
                Ok(n) => hex(n.to_string().as_bytes()),
                Err(_) => hex(v.username().as_bytes()),
            },
        ),
        ("v", hex(v.password_verifier())),
        ("salt", hex(v.salt())),
    ]
}

fn census_item(src: &str, a: &Args, ctx: &Ctx, state: &mut CensusState) -> Result<String, String> {
    // returns "<value>[:<draw>+<draw>...]" ; several values of one exchange are joined with '/'
    let _ = ctx;
    let _ = a;
    match src {
        "salt" => {
            let v = SrpVerifier::from_username_and_password(state.u.clone(), state.p.clone());
            Ok(hex(v.salt()))
        }
        "exchange" => {
            // one full login: b (via B + draw), a (via A + draw), creation challenge,
            // `refresh` refreshed challenges, `crec` client reconnect challenges
            hook::log_take();
            let proof = state.ver.clone().into_proof();
            let d_b = hook::log_take();
            let b_pub = *proof.server_public_key();
            let salt = *proof.salt();
            let pk = PublicKey::from_le_bytes(b_pub).map_err(|e| format!("own B invalid: {}", e))?;
            let chal = SrpClientChallenge::new(
                state.u.clone(),
                state.p.clone(),
                wow_srp::GENERATOR,
                wow_srp::LARGE_SAFE_PRIME_LITTLE_ENDIAN,
                pk,
                salt,
            );
            let d_a = hook::log_take();
            let a_pub = *chal.client_public_key();
            let m1 = *chal.client_proof();
            let apk = PublicKey::from_le_bytes(a_pub).map_err(|e| format!("own A invalid: {}", e))?;
            let (mut server, m2) = proof
                .into_server(apk, m1)
                .map_err(|e| format!("honest login refused: {}", e))?;
            let client = chal
                .verify_server_proof(m2)
                .map_err(|e| format!("honest server proof refused: {}", e))?;
            let mut out = String::new();
            let j = |d: &Vec<Vec<u8>>| d.iter().map(|x| hex(x)).collect::<Vec<_>>().join("+");
            out.push_str(&format!("B={}:{}", hex(&b_pub), j(&d_b)));
            out.push_str(&format!("/A={}:{}", hex(&a_pub), j(&d_a)));
            out.push_str(&format!("/C0={}", hex(server.reconnect_challenge_data())));
            for i in 0..state.refresh {
                // alternate accepted and rejected attempts
                if i % 3 == 2 {
                    // aliased input: the attempt echoes the challenge on offer
                    let cur = *server.reconnect_challenge_data();
                    let ok = server.verify_reconnection_attempt(cur, [0x5a; 20]);
                    out.push_str(&format!("/R{}={}", if ok { "Z" } else { "e" }, hex(server.reconnect_challenge_data())));
                } else if i % 3 == 0 {
                    let r = client.calculate_reconnect_values(*server.reconnect_challenge_data());
                    out.push_str(&format!("/CC={}", hex(&r.challenge_data)));
                    let ok = server.verify_reconnection_attempt(r.challenge_data, r.proof);
                    out.push_str(&format!("/R{}={}", if ok { "a" } else { "X" }, hex(server.reconnect_challenge_data())));
                } else {
                    let ok = server.verify_reconnection_attempt([i as u8; 16], [0u8; 20]);
                    out.push_str(&format!("/R{}={}", if ok { "Y" } else { "r" }, hex(server.reconnect_challenge_data())));
                }
            }
            hook::log_take();
            Ok(out)
        }
        "proof_clones" => {
            // several SrpServer objects that stem from copies of ONE pending SrpProof (the usual way to survive a refused
            // attempt, since into_server consumes the proof): each draws its own first reconnect challenge
            let proof = state.ver.clone().into_proof();
            let pk = PublicKey::from_le_bytes(*proof.server_public_key()).map_err(|e| format!("own B invalid: {}", e))?;
            let chal = SrpClientChallenge::new(state.u.clone(), state.p.clone(), wow_srp::GENERATOR, wow_srp::LARGE_SAFE_PRIME_LITTLE_ENDIAN, pk, *proof.salt());
            let a_pub = *chal.client_public_key();
            let m1 = *chal.client_proof();
            let mut out = Vec::new();
            for i in 0..4 {
                let apk = PublicKey::from_le_bytes(a_pub).map_err(|e| format!("own A invalid: {}", e))?;
                if i == 1 {
                    // a refused attempt on one more copy in between
                    let apk2 = PublicKey::from_le_bytes(a_pub).map_err(|e| format!("own A invalid: {}", e))?;
                    let _ = proof.clone().into_server(apk2, [0u8; 20]);
                }
                let (server, _m2) = proof.clone().into_server(apk, m1).map_err(|e| format!("honest login refused: {}", e))?;
                out.push(hex(server.reconnect_challenge_data()));
            }
            Ok(out.join("/"))
        }
        "mixed" => {
            // a randomly ordered mix of every operation that draws 16- or 32-byte values, on one thread; every value
            // that is handed out directly is reported, tagged with its kind
            state.mix = state.mix.wrapping_mul(6364136223846793005).wrapping_add(1442695040888963407);
            let pick = (state.mix >> 33) % 8;
            match pick {
                0 => {
                    let v = SrpVerifier::from_username_and_password(state.u.clone(), state.p.clone());
                    Ok(format!("salt={}", hex(v.salt())))
                }
                1 => {
                    let p = state.ver.clone().into_proof();
                    state.last_proof = Some(p.clone());
                    Ok(format!("B={}", hex(p.server_public_key())))
                }
                2 => {
                    let proof = state.ver.clone().into_proof();
                    let pk = PublicKey::from_le_bytes(*proof.server_public_key()).map_err(|e| format!("own B invalid: {}", e))?;
                    let chal = SrpClientChallenge::new(state.u.clone(), state.p.clone(), wow_srp::GENERATOR, wow_srp::LARGE_SAFE_PRIME_LITTLE_ENDIAN, pk, *proof.salt());
                    let a_pub = *chal.client_public_key();
                    let apk = PublicKey::from_le_bytes(a_pub).map_err(|e| format!("own A invalid: {}", e))?;
                    let b_pub = *proof.server_public_key();
                    match proof.into_server(apk, *chal.client_proof()) {
                        Ok((server, m2)) => {
                            let c0 = *server.reconnect_challenge_data();
                            state.server = Some(server);
                            if let Ok(cl) = chal.verify_server_proof(m2) {
                                state.client = Some(cl);
                            }
                            Ok(format!("B={}/A={}/chal={}", hex(&b_pub), hex(&a_pub), hex(&c0)))
                        }
                        Err(e) => Err(format!("honest login refused: {}", e)),
                    }
                }
                3 | 4 => match state.server.as_mut() {
                    Some(s) => {
                        let _ = s.verify_reconnection_attempt([pick as u8; 16], [0u8; 20]);
                        Ok(format!("chal={}", hex(s.reconnect_challenge_data())))
                    }
                    None => Ok(format!("isalt={}", hex(&wow_srp::integrity::get_salt_value()))),
                },
                5 => match (state.client.as_ref(), state.server.as_ref()) {
                    (Some(c), Some(s)) => {
                        let r = c.calculate_reconnect_values(*s.reconnect_challenge_data());
                        Ok(format!("cchal={}", hex(&r.challenge_data)))
                    }
                    _ => Ok(format!("psalt={}", hex(&wow_srp::pin::get_pin_salt()))),
                },
                6 => Ok(format!("isalt={}", hex(&wow_srp::integrity::get_salt_value()))),
                _ => Ok(format!("psalt={}", hex(&wow_srp::pin::get_pin_salt()))),
            }
        }
        "seeds_mixed" => {
            let v = vanilla_header::ProofSeed::new().seed();
            let t = tbc_header::ProofSeed::new().seed();
            let w = wrath_header::ProofSeed::new().seed();
            let p = wow_srp::pin::get_pin_grid_seed();
            let v2 = vanilla_header::ProofSeed::default().seed();
            let t2 = tbc_header::ProofSeed::default().seed();
            let w2 = wrath_header::ProofSeed::default().seed();
            Ok(format!(
                "{}/{}/{}/{}/{}/{}/{}",
                hex(&v.to_le_bytes()), hex(&t.to_le_bytes()), hex(&w.to_le_bytes()), hex(&p.to_le_bytes()), hex(&v2.to_le_bytes()), hex(&t2.to_le_bytes()), hex(&w2.to_le_bytes())
            ))
        }
        "vseed" => Ok(hex(&vanilla_header::ProofSeed::new().seed().to_le_bytes())),
        "tseed" => Ok(hex(&tbc_header::ProofSeed::new().seed().to_le_bytes())),
        "wseed" => Ok(hex(&wrath_header::ProofSeed::new().seed().to_le_bytes())),
        // the same seeds obtained through the Default trait (the constructor the crate itself uses to draw them)
        "vseed_d" => Ok(hex(&<vanilla_header::ProofSeed as Default>::default().seed().to_le_bytes())),
        "tseed_d" => Ok(hex(&<tbc_header::ProofSeed as Default>::default().seed().to_le_bytes())),
        "wseed_d" => Ok(hex(&<wrath_header::ProofSeed as Default>::default().seed().to_le_bytes())),
        "integrity_salt" => Ok(hex(&wow_srp::integrity::get_salt_value())),
        "pin_salt" => Ok(hex(&wow_srp::pin::get_pin_salt())),
        "pin_seed" => Ok(hex(&wow_srp::pin::get_pin_grid_seed().to_le_bytes())),
        "mc_seed" => Ok(hex(&wow_srp::matrix_card::get_matrix_card_seed().to_le_bytes())),
        "mc_card" => {
            let c = wow_srp::matrix_card::MatrixCard::new(state.dc, state.h, state.w);
            Ok(hex(c.data()))
        }
        _ => Err(format!("unknown census source {}", src)),
    }
}

#[derive(Clone)]
struct CensusState {
    mix: u64,
    last_proof: Option<SrpProof>,
    server: Option<SrpServer>,
    client: Option<SrpClient>,
    u: NormalizedString,
    p: NormalizedString,
    ver: SrpVerifier,
    refresh: u32,
    dc: u8,
    h: u8,
    w: u8,
}

fn run(ctx: &mut Ctx, op: &str, a: &Args) -> Res {
    match op {
        "ping" => Ok(vec![("pong", "1".into())]),
        "ns" => {
            let s = a.string(ctx, "s")?;
            let via = a.opt("via").unwrap_or("new");
            let r = match via {
                "new" => NormalizedString::new(&s),
                "from_str" => NormalizedString::from_str(&s),
                "from_string" => NormalizedString::from_string(s.clone()),
                "try_from_str" => {
                    use std::convert::TryFrom;
                    NormalizedString::try_from(s.as_str())
                }
                "try_from_string" => {
                    use std::convert::TryFrom;
                    NormalizedString::try_from(s.clone())
                }
                _ => return bad("unknown via"),
            };
            match r {
                Ok(n) => Ok(vec![
                    ("text", hex(n.as_ref().as_bytes())),
                    ("display", hex(format!("{}", n).as_bytes())),
                ]),
                Err(NormalizedStringError::StringTooLong) => {
                    Err(Reply::Err(vec![("kind", "len".into())]))
                }
                Err(NormalizedStringError::CharacterNotAllowed(c)) => Err(Reply::Err(vec![
                    ("kind", "char".into()),
                    ("c", format!("{}", c as u32)),
                ])),
            }
        }
        "ver_new" => {
            let into = a.u64("into")?;
            let u = a.ns(ctx, "u")?;
            let p = a.ns(ctx, "p")?;
            let v = SrpVerifier::from_username_and_password(u, p);
            let f = ver_fields(&v);
            ctx.objs.insert(into, Obj::Ver(v));
            Ok(f)
        }
        "ver_db" => {
            let into = a.u64("into")?;
            let u = a.ns(ctx, "u")?;
            let v = a.arr::<32>(ctx, "v")?;
            let salt = a.arr::<32>(ctx, "salt")?;
            let v = SrpVerifier::from_database_values(u, v, salt);
            let f = ver_fields(&v);
            ctx.objs.insert(into, Obj::Ver(v));
            Ok(f)
        }
        "ver_get" => match ctx.objs.get(&a.u64("h")?) {
            Some(Obj::Ver(v)) => Ok(ver_fields(v)),
            _ => bad("not a verifier"),
        },
        "ver_proof" => {
            let into = a.u64("into")?;
            match ctx.take(a.u64("h")?, a.flag("keep"))? {
                Obj::Ver(v) => {
                    let p = v.into_proof();
                    let f = vec![("B", hex(p.server_public_key())), ("salt", hex(p.salt()))];
                    ctx.objs.insert(into, Obj::Proof(p));
                    Ok(f)
                }
                _ => bad("not a verifier"),
            }
        }
        "proof_get" => match ctx.objs.get(&a.u64("h")?) {
            Some(Obj::Proof(p)) => Ok(vec![("B", hex(p.server_public_key())), ("salt", hex(p.salt()))]),
            _ => bad("not a proof"),
        },
        "clone" => {
            let o = ctx.take(a.u64("h")?, true)?;
            ctx.objs.insert(a.u64("into")?, o);
            Ok(vec![])
        }
        "pk" => {
            let k = a.arr::<32>(ctx, "A")?;
            match PublicKey::from_le_bytes(k) {
                Ok(p) => Ok(vec![("bytes", hex(p.as_le_bytes()))]),
                Err(e) => Err(Reply::Err(vec![("stage", "pk".into()), ("kind", pk_err(&e).into())])),
            }
        }
        "proof_server" => {
            let into = a.u64("into")?;
            let k = a.arr::<32>(ctx, "A")?;
            let m1 = a.arr::<20>(ctx, "M1")?;
            let pk = match PublicKey::from_le_bytes(k) {
                Ok(p) => p,
                Err(e) => {
                    return Err(Reply::Err(vec![("stage", "pk".into()), ("kind", pk_err(&e).into())]))
                }
            };
            match ctx.take(a.u64("h")?, a.flag("keep"))? {
                Obj::Proof(p) => match p.into_server(pk, m1) {
                    Ok((s, m2)) => {
                        let f = vec![
                            ("M2", hex(&m2)),
                            ("K", hex(s.session_key())),
                            ("chal", hex(s.reconnect_challenge_data())),
                        ];
                        ctx.objs.insert(into, Obj::Server(s));
                        Ok(f)
                    }
                    Err(e) => Err(Reply::Err(vec![
                        ("stage", "proof".into()),
                        ("client_proof", hex(&e.client_proof)),
                        ("server_proof", hex(&e.server_proof)),
                    ])),
                },
                _ => bad("not a proof"),
            }
        }
        "srv_get" => match ctx.objs.get(&a.u64("h")?) {
            Some(Obj::Server(s)) => Ok(vec![
                ("K", hex(s.session_key())),
                ("chal", hex(s.reconnect_challenge_data())),
            ]),
            _ => bad("not a server"),
        },
        "srv_reconnect" => {
            let data = a.arr::<16>(ctx, "data")?;
            let proof = a.arr::<20>(ctx, "proof")?;
            match ctx.objs.get_mut(&a.u64("h")?) {
                Some(Obj::Server(s)) => {
                    let before = *s.reconnect_challenge_data();
                    let r = s.verify_reconnection_attempt(data, proof);
                    Ok(vec![
                        ("res", if r { "1".into() } else { "0".into() }),
                        ("before", hex(&before)),
                        ("chal", hex(s.reconnect_challenge_data())),
                    ])
                }
                _ => bad("not a server"),
            }
        }
        "cli_new" => {
            let into = a.u64("into")?;
            let u = a.ns(ctx, "u")?;
            let p = a.ns(ctx, "p")?;
            let g = a.u8("g")?;
            let n = a.arr::<32>(ctx, "N")?;
            let b = a.arr::<32>(ctx, "B")?;
            let salt = a.arr::<32>(ctx, "salt")?;
            let pk = match PublicKey::from_le_bytes(b) {
                Ok(p) => p,
                Err(e) => {
                    return Err(Reply::Err(vec![("stage", "pk".into()), ("kind", pk_err(&e).into())]))
                }
            };
            let c = SrpClientChallenge::new(u, p, g, n, pk, salt);
            let f = vec![("A", hex(c.client_public_key())), ("M1", hex(c.client_proof()))];
            ctx.objs.insert(into, Obj::Chal(c));
            Ok(f)
        }
        "cli_get" => match ctx.objs.get(&a.u64("h")?) {
            Some(Obj::Chal(c)) => Ok(vec![("A", hex(c.client_public_key())), ("M1", hex(c.client_proof()))]),
            _ => bad("not a client challenge"),
        },
        "cli_verify" => {
            let into = a.u64("into")?;
            let m2 = a.arr::<20>(ctx, "M2")?;
            match ctx.take(a.u64("h")?, a.flag("keep"))? {
                Obj::Chal(c) => match c.verify_server_proof(m2) {
                    Ok(cl) => {
                        let f = vec![("K", hex(cl.session_key()))];
                        ctx.objs.insert(into, Obj::Client(cl));
                        Ok(f)
                    }
                    Err(e) => Err(Reply::Err(vec![
                        ("stage", "proof".into()),
                        ("client_proof", hex(&e.client_proof)),
                        ("server_proof", hex(&e.server_proof)),
                    ])),
                },
                _ => bad("not a client challenge"),
            }
        }
        "clt_get" => match ctx.objs.get(&a.u64("h")?) {
            Some(Obj::Client(c)) => Ok(vec![("K", hex(c.session_key()))]),
            _ => bad("not a client"),
        },
        "clt_reconnect" => {
            let chal = a.arr::<16>(ctx, "chal")?;
            match ctx.objs.get(&a.u64("h")?) {
                Some(Obj::Client(c)) => {
                    let r = c.calculate_reconnect_values(chal);
                    Ok(vec![("data", hex(&r.challenge_data)), ("proof", hex(&r.proof))])
                }
                _ => bad("not a client"),
            }
        }
        "seed_new" => {
            let into = a.u64("into")?;
            let (o, s) = match a.s("x")? {
                "v" => {
                    let s = vanilla_header::ProofSeed::new();
                    (Obj::VSeed(s), s.seed())
                }
                "t" => {
                    let s = tbc_header::ProofSeed::new();
                    (Obj::TSeed(s), s.seed())
                }
                "w" => {
                    let s = wrath_header::ProofSeed::new();
                    (Obj::WSeed(s), s.seed())
                }
                _ => return bad("x must be v|t|w"),
            };
            ctx.objs.insert(into, o);
            Ok(vec![("seed", format!("{}", s))])
        }
        "seed_get" => match ctx.objs.get(&a.u64("h")?) {
            Some(Obj::VSeed(s)) => Ok(vec![("seed", format!("{}", s.seed()))]),
            Some(Obj::TSeed(s)) => Ok(vec![("seed", format!("{}", s.seed()))]),
            Some(Obj::WSeed(s)) => Ok(vec![("seed", format!("{}", s.seed()))]),
            _ => bad("not a seed"),
        },
        "seed_client" => {
            let into = a.u64("into")?;
            let u = a.ns(ctx, "u")?;
            let k = a.arr::<40>(ctx, "K")?;
            let sseed = a.u32("sseed")?;
            let (proof, o) = match ctx.take(a.u64("h")?, true)? {
                Obj::VSeed(s) => {
                    let (p, c) = s.into_client_header_crypto(&u, k, sseed);
                    (p, Obj::VCrypto(c))
                }
                Obj::TSeed(s) => {
                    let (p, c) = s.into_client_header_crypto(&u, k, sseed);
                    (p, Obj::TCrypto(c))
                }
                Obj::WSeed(s) => {
                    let (p, c) = s.into_client_header_crypto(&u, k, sseed);
                    (p, Obj::WClient(c))
                }
                _ => return bad("not a seed"),
            };
            ctx.objs.insert(into, o);
            Ok(vec![("proof", hex(&proof))])
        }
        "seed_server" => {
            let into = a.u64("into")?;
            let u = a.ns(ctx, "u")?;
            let k = a.arr::<40>(ctx, "K")?;
            let proof = a.arr::<20>(ctx, "proof")?;
            let cseed = a.u32("cseed")?;
            let r = match ctx.take(a.u64("h")?, true)? {
                Obj::VSeed(s) => s.into_server_header_crypto(&u, k, proof, cseed).map(Obj::VCrypto),
                Obj::TSeed(s) => s.into_server_header_crypto(&u, k, proof, cseed).map(Obj::TCrypto),
                Obj::WSeed(s) => s.into_server_header_crypto(&u, k, proof, cseed).map(Obj::WServer),
                _ => return bad("not a seed"),
            };
            match r {
                Ok(o) => {
                    ctx.objs.insert(into, o);
                    Ok(vec![])
                }
                Err(e) => Err(Reply::Err(vec![
                    ("stage", "proof".into()),
                    ("client_proof", hex(&e.client_proof)),
                    ("server_proof", hex(&e.server_proof)),
                ])),
            }
        }
        "hc_enc" | "hc_dec" => {
            let mut d = a.bytes(ctx, "data")?;
            let enc = op == "hc_enc";
            match ctx.objs.get_mut(&a.u64("h")?) {
                Some(Obj::VCrypto(c)) => {
                    if enc { c.encrypt(&mut d) } else { c.decrypt(&mut d) }
                }
                Some(Obj::TCrypto(c)) => {
                    if enc { c.encrypt(&mut d) } else { c.decrypt(&mut d) }
                }
                Some(Obj::WClient(c)) => {
                    if enc { c.encrypt(&mut d) } else { c.decrypt(&mut d) }
                }
                Some(Obj::WServer(c)) => {
                    if enc { c.encrypt(&mut d) } else { c.decrypt(&mut d) }
                }
                _ => return bad("not a header crypto"),
            }
            Ok(vec![("data", hex(&d))])
        }
        "gen" => {
            let v = match a.s("what")? {
                "integrity_salt" => hex(&wow_srp::integrity::get_salt_value()),
                "pin_salt" => hex(&wow_srp::pin::get_pin_salt()),
                "pin_seed" => hex(&wow_srp::pin::get_pin_grid_seed().to_le_bytes()),
                "mc_seed" => hex(&wow_srp::matrix_card::get_matrix_card_seed().to_le_bytes()),
                "mc_card" => {
                    let c = wow_srp::matrix_card::MatrixCard::new(a.u8("dc")?, a.u8("h")?, a.u8("w")?);
                    hex(c.data())
                }
                _ => return bad("unknown generator"),
            };
            Ok(vec![("val", v)])
        }
        "rng_script" => {
            let s = a.s("chunks")?;
            let mut n = 0;
            for c in s.split(',') {
                if c.is_empty() {
                    continue;
                }
                let b = if c.starts_with('$') {
                    // reference
                    let tmp = Args { m: [("x", c)].into_iter().collect() };
                    tmp.bytes(ctx, "x")?
                } else {
                    unhex(c).map_err(Reply::Bad)?
                };
                hook::script_push(&b);
                n += 1;
            }
            Ok(vec![("pushed", format!("{}", n))])
        }
        "rng_clear" => Ok(vec![("pending", format!("{}", hook::script_clear()))]),
        "drop" => {
            ctx.objs.remove(&a.u64("h")?);
            Ok(vec![])
        }
        "reset" => {
            ctx.objs.clear();
            ctx.store.clear();
            ctx.store_order.clear();
            Ok(vec![("pending", format!("{}", hook::script_clear()))])
        }
        "mt_first_use" => {
            // the FIRST use of the login code in the life of this process happens on several threads at the same moment (all
            // clients coming back to a server that was just restarted): every thread prepares its inputs with calls of the
            // other role, waits at a barrier, then all make the judged call at once; one sequential login follows
            let threads = a.opt("threads").and_then(|t| t.parse::<usize>().ok()).unwrap_or(16).min(64);
            let mode = a.opt("mode").unwrap_or("server").to_string();
            let barrier = std::sync::Arc::new(std::sync::Barrier::new(threads));
            let mut handles = Vec::new();
            for ti in 0..threads {
                let barrier = barrier.clone();
                let mode = mode.clone();
                handles.push(std::thread::spawn(move || -> String {
                    let u = NormalizedString::new(format!("FIRST{}", ti)).unwrap();
                    let p = NormalizedString::new("USE").unwrap();
                    if mode == "server" {
                        // inputs come from fixed values (no client-side call of the library before the barrier): verifier 1, A = 2
                        let mut v1 = [0u8; 32];
                        v1[0] = 1 + ti as u8;
                        let ver = SrpVerifier::from_database_values(u, v1, [7u8; 32]);
                        let proof = ver.into_proof();
                        let mut a_pub = [0u8; 32];
                        a_pub[0] = 2 + ti as u8;
                        let apk = match PublicKey::from_le_bytes(a_pub) {
                            Ok(k) => k,
                            Err(_) => return "harness".into(),
                        };
                        barrier.wait();
                        match catch_unwind(AssertUnwindSafe(|| proof.into_server(apk, [0x5au8; 20]).is_ok())) {
                            Ok(_) => "answered".into(),
                            Err(_) => format!("panic:{}", LAST_PANIC.with(|p| p.borrow_mut().take()).unwrap_or_default().replace([',', ';', '\t', '\n'], " ")),
                        }
                    } else {
                        let mut b_pub = [0u8; 32];
                        b_pub[1] = 3 + ti as u8;
                        let bpk = match PublicKey::from_le_bytes(b_pub) {
                            Ok(k) => k,
                            Err(_) => return "harness".into(),
                        };
                        barrier.wait();
                        match catch_unwind(AssertUnwindSafe(|| {
                            let c = SrpClientChallenge::new(u, p, wow_srp::GENERATOR, wow_srp::LARGE_SAFE_PRIME_LITTLE_ENDIAN, bpk, [9u8; 32]);
                            c.verify_server_proof([0u8; 20]).is_ok()
                        })) {
                            Ok(_) => "answered".into(),
                            Err(_) => format!("panic:{}", LAST_PANIC.with(|p| p.borrow_mut().take()).unwrap_or_default().replace([',', ';', '\t', '\n'], " ")),
                        }
                    }
                }));
            }
            let mut res: Vec<String> = Vec::new();
            for h in handles {
                res.push(h.join().unwrap_or_else(|_| "panic:thread died".into()));
            }
            // one sequential honest login afterwards
            let after = catch_unwind(AssertUnwindSafe(|| -> Result<bool, String> {
                let u = NormalizedString::new("AFTER").map_err(|e| e.to_string())?;
                let p = NormalizedString::new("WARDS").map_err(|e| e.to_string())?;
                let proof = SrpVerifier::from_username_and_password(u.clone(), p.clone()).into_proof();
                let bpk = PublicKey::from_le_bytes(*proof.server_public_key()).map_err(|e| e.to_string())?;
                let c = SrpClientChallenge::new(u, p, wow_srp::GENERATOR, wow_srp::LARGE_SAFE_PRIME_LITTLE_ENDIAN, bpk, *proof.salt());
                let apk = PublicKey::from_le_bytes(*c.client_public_key()).map_err(|e| e.to_string())?;
                let (_s, m2) = proof.into_server(apk, *c.client_proof()).map_err(|e| e.to_string())?;
                Ok(c.verify_server_proof(m2).is_ok())
            }));
            let after_s = match after {
                Ok(Ok(true)) => "ok".to_string(),
                Ok(Ok(false)) => "client_refused".to_string(),
                Ok(Err(e)) => format!("refused:{}", e.replace(['\t', '\n'], " ")),
                Err(_) => format!("panic:{}", LAST_PANIC.with(|p| p.borrow_mut().take()).unwrap_or_default().replace(['\t', '\n'], " ")),
            };
            Ok(vec![("results", res.join(",")), ("after", after_s)])
        }
        "mt_logins" => {
            // honest library<->library logins on several threads of this process at once; every login is reported as a
            // transcript (values that left the API + the draws logged on that thread) for the driver's model to judge
            let n = a.u64("n")? as usize;
            let threads = a.opt("threads").and_then(|t| t.parse::<usize>().ok()).unwrap_or(4).min(32);
            let tag = a.u64("tag").unwrap_or(0);
            let mut handles = Vec::new();
            for ti in 0..threads {
                handles.push(std::thread::spawn(move || -> Result<String, String> {
                    hook::log_enable(true);
                    let mut out = Vec::with_capacity(n);
                    let mut x = (tag + 1).wrapping_mul(0x9E37_79B9_7F4A_7C15) ^ ((ti as u64 + 1) << 32);
                    let mut next = || {
                        x ^= x << 13;
                        x ^= x >> 7;
                        x ^= x << 17;
                        x
                    };
                    for i in 0..n {
                        // credentials over the printable alphabet, lengths 1..16, typed in another case by the client
                        let mk = |r: u64, salt: u64| -> String {
                            let len = 1 + (r % 16) as usize;
                            let mut s = String::new();
                            let mut y = r ^ salt;
                            for _ in 0..len {
                                y = y.wrapping_mul(6364136223846793005).wrapping_add(1442695040888963407);
                                s.push((0x20 + ((y >> 33) % 95) as u8) as char);
                            }
                            s
                        };
                        if ti % 2 == 1 && i % 3 == 0 {
                            // a client session under another announced group on this thread, concurrently with the logins of the other threads
                            let mut n2 = [0xffu8; 32];
                            n2[0] = 0xed;
                            n2[31] = 0x7f; // 2^255 - 19
                            if let Ok(pk) = PublicKey::from_le_bytes([9u8; 32]) {
                                let o = SrpClientChallenge::new(
                                    NormalizedString::new("OTHER").map_err(|e| e.to_string())?,
                                    NormalizedString::new("GROUP").map_err(|e| e.to_string())?,
                                    2,
                                    n2,
                                    pk,
                                    [i as u8; 32],
                                );
                                let _ = o.client_public_key();
                            }
                            hook::log_take();
                        }
                        let user = mk(next(), 1);
                        let pw = mk(next(), 2);
                        let un = NormalizedString::new(&user).map_err(|e| e.to_string())?;
                        let pn = NormalizedString::new(&pw).map_err(|e| e.to_string())?;
                        hook::log_take();
                        let ver = SrpVerifier::from_username_and_password(un.clone(), pn.clone());
                        let d_salt = hook::log_take();
                        let v = *ver.password_verifier();
                        let salt = *ver.salt();
                        let ver = if i % 2 == 0 {
                            SrpVerifier::from_database_values(NormalizedString::new(ver.username()).map_err(|e| e.to_string())?, v, salt)
                        } else {
                            ver
                        };
                        let proof = ver.into_proof();
                        let d_b = hook::log_take();
                        let b_pub = *proof.server_public_key();
                        let pk = PublicKey::from_le_bytes(b_pub).map_err(|e| format!("own B invalid: {}", e))?;
                        let cu = NormalizedString::new(user.to_ascii_lowercase()).map_err(|e| e.to_string())?;
                        let cp = NormalizedString::new(pw.to_ascii_uppercase()).map_err(|e| e.to_string())?;
                        let chal = SrpClientChallenge::new(cu, cp, wow_srp::GENERATOR, wow_srp::LARGE_SAFE_PRIME_LITTLE_ENDIAN, pk, salt);
                        let d_a = hook::log_take();
                        let a_pub = *chal.client_public_key();
                        let m1 = *chal.client_proof();
                        let apk = PublicKey::from_le_bytes(a_pub).map_err(|e| format!("own A invalid: {}", e))?;
                        let j = |d: &Vec<Vec<u8>>| d.iter().map(|x| hex(x)).collect::<Vec<_>>().join("+");
                        let mut t = format!(
                            "u={};p={};salt={};ds={};v={};B={};db={};A={};da={};M1={}",
                            hex(user.as_bytes()), hex(pw.as_bytes()), hex(&salt), j(&d_salt), hex(&v), hex(&b_pub), j(&d_b), hex(&a_pub), j(&d_a), hex(&m1)
                        );
                        match proof.into_server(apk, m1) {
                            Ok((server, m2)) => {
                                t.push_str(&format!(";srv=ok;M2={};Ks={}", hex(&m2), hex(server.session_key())));
                                match chal.verify_server_proof(m2) {
                                    Ok(cl) => t.push_str(&format!(";cli=ok;Kc={}", hex(cl.session_key()))),
                                    Err(e) => t.push_str(&format!(";cli=err;cp={};sp={}", hex(&e.client_proof), hex(&e.server_proof))),
                                }
                            }
                            Err(e) => t.push_str(&format!(";srv=err;cp={};sp={}", hex(&e.client_proof), hex(&e.server_proof))),
                        }
                        hook::log_take();
                        out.push(t);
                    }
                    Ok(out.join(","))
                }));
            }
            let mut f = Vec::new();
            const NAMES: [&str; 32] = [
                "t0", "t1", "t2", "t3", "t4", "t5", "t6", "t7", "t8", "t9", "t10", "t11", "t12", "t13", "t14", "t15", "t16", "t17",
                "t18", "t19", "t20", "t21", "t22", "t23", "t24", "t25", "t26", "t27", "t28", "t29", "t30", "t31",
            ];
            for (i, h) in handles.into_iter().enumerate() {
                match h.join() {
                    Ok(Ok(s)) => f.push((NAMES[i], s)),
                    Ok(Err(e)) => return Err(Reply::Err(vec![("stage", "mt".into()), ("msg", e.replace('\t', " "))])),
                    Err(_) => {
                        return Err(Reply::Err(vec![("stage", "mt_panic".into()), ("msg", "a login thread panicked".to_string())]));
                    }
                }
            }
            Ok(f)
        }
        "noise" => {
            // calls of OTHER modules / entry points, including failing ones, on this thread (their results are not judged here;
            // they must not influence what is judged)
            let k = a.u64("k").unwrap_or(0);
            let mut x = k.wrapping_mul(0x9E37_79B9_7F4A_7C15) | 1;
            let mut nx = || {
                x ^= x << 13;
                x ^= x >> 7;
                x ^= x << 17;
                x
            };
            for _ in 0..(1 + k % 3) {
                match nx() % 9 {
                    0 => {
                        let _ = wow_srp::pin::calculate_hash((nx() % 1000) as u32, nx() as u32, &[1u8; 16], &[2u8; 16]);
                    }
                    1 => {
                        let _ = wow_srp::pin::verify_client_pin_hash(1000 + (nx() % 100000) as u32, nx() as u32, &[3u8; 16], &[4u8; 16], &[0u8; 20]);
                    }
                    2 => {
                        let _ = NormalizedString::new("bad\tname");
                        let _ = NormalizedString::new("waytoolongcredentialstring");
                    }
                    3 => {
                        let _ = NormalizedString::new("Other`Name");
                    }
                    4 => {
                        let _ = PublicKey::from_le_bytes([0u8; 32]);
                        let _ = PublicKey::from_le_bytes(wow_srp::LARGE_SAFE_PRIME_LITTLE_ENDIAN);
                    }
                    5 => {
                        let _ = wow_srp::integrity::login_integrity_check_generic(&[7u8; 70], &[1u8; 16], &[9u8; 32]);
                        let _ = wow_srp::integrity::reconnect_integrity_check(&[5u8; 16]);
                    }
                    6 => {
                        let n = NormalizedString::new("NOISE").unwrap();
                        let s = vanilla_header::ProofSeed::new();
                        let _ = s.into_server_header_crypto(&n, [nx() as u8; 40], [0u8; 20], 1);
                        let t = tbc_header::ProofSeed::new();
                        let (_, mut c) = t.into_client_header_crypto(&n, [nx() as u8; 40], 7);
                        let _ = c.encrypt_client_header(4, 0x1dc);
                    }
                    7 => {
                        let n = NormalizedString::new("NOISE2").unwrap();
                        let w = wrath_header::ProofSeed::new();
                        let (_, mut c) = w.into_client_header_crypto(&n, [nx() as u8; 40], 9);
                        let _ = c.encrypt_client_header(6, 0x37);
                        let _ = c.attempt_decrypt_server_header([0x80, 1, 2, 3]);
                    }
                    _ => {
                        let c = wow_srp::matrix_card::MatrixCard::new(2, 3, 3);
                        let _ = wow_srp::matrix_card::verify_matrix_card_hash(&c, 2, nx(), &[1u8; 40], &[0u8; 20]);
                    }
                }
            }
            Ok(vec![])
        }
        "census" => {
            let src = a.s("src")?.to_string();
            let n = a.u64("n")? as usize;
            let threads = a.opt("threads").map(|t| t.parse::<usize>().unwrap_or(1)).unwrap_or(1);
            let u = a.ns(ctx, "u")?;
            let p = a.ns(ctx, "p")?;
            let ver = SrpVerifier::from_database_values(
                u.clone(),
                a.arr::<32>(ctx, "v")?,
                a.arr::<32>(ctx, "salt")?,
            );
            let st = CensusState {
                mix: a.opt("mixseed").and_then(|t| t.parse::<u64>().ok()).unwrap_or(1),
                last_proof: None,
                server: None,
                client: None,
                u,
                p,
                ver,
                refresh: a.opt("refresh").map(|t| t.parse::<u32>().unwrap_or(0)).unwrap_or(0),
                dc: a.opt("dc").map(|t| t.parse::<u8>().unwrap_or(2)).unwrap_or(2),
                h: a.opt("ch").map(|t| t.parse::<u8>().unwrap_or(8)).unwrap_or(8),
                w: a.opt("cw").map(|t| t.parse::<u8>().unwrap_or(8)).unwrap_or(8),
            };
            let mut handles = Vec::new();
            for ti in 0..threads {
                let src = src.clone();
                let mut st = st.clone();
                st.mix = st.mix.wrapping_add(0x9E37_79B9_7F4A_7C15u64.wrapping_mul(ti as u64 + 1));
                handles.push(std::thread::spawn(move || -> Result<String, String> {
                    hook::log_enable(true);
                    let dummy_ctx = Ctx {
                        objs: HashMap::new(),
                        store: HashMap::new(),
                        store_order: Default::default(),
                    };
                    let dummy = Args { m: HashMap::new() };
                    let mut out = Vec::with_capacity(n);
                    for _ in 0..n {
                        out.push(census_item(&src, &dummy, &dummy_ctx, &mut st)?);
                    }
                    Ok(out.join(","))
                }));
            }
            let mut f = Vec::new();
            const NAMES: [&str; 32] = [
                "t0", "t1", "t2", "t3", "t4", "t5", "t6", "t7", "t8", "t9", "t10", "t11", "t12", "t13",
                "t14", "t15", "t16", "t17", "t18", "t19", "t20", "t21", "t22", "t23", "t24", "t25",
                "t26", "t27", "t28", "t29", "t30", "t31",
            ];
            if threads > 32 {
                return bad("at most 32 threads");
            }
            for (i, h) in handles.into_iter().enumerate() {
                match h.join() {
                    Ok(Ok(s)) => f.push((NAMES[i], s)),
                    Ok(Err(e)) => return Err(Reply::Err(vec![("stage", "census".into()), ("msg", e.replace('\t', " "))])),
                    Err(_) => {
                        let msg = "census thread panicked".to_string();
                        return Err(Reply::Err(vec![("stage", "census_panic".into()), ("msg", msg)]));
                    }
                }
            }
            Ok(f)
        }
        _ => bad(format!("unknown op {}", op)),
    }
}

fn main() {
    std::panic::set_hook(Box::new(|info| {
        let s = format!("{}", info).replace(['\n', '\t'], " ");
        LAST_PANIC.with(|p| *p.borrow_mut() = Some(s));
    }));
    hook::log_enable(true);
    let stdin = std::io::stdin();
    let stdout = std::io::stdout();
    let mut out = BufWriter::new(stdout.lock());
    let mut ctx = Ctx {
        objs: HashMap::new(),
        store: HashMap::new(),
        store_order: Default::default(),
    };
    const STORE_CAP: usize = 4096;
    for line in stdin.lock().lines() {
        let line = match line {
            Ok(l) => l,
            Err(_) => break,
        };
        let line = line.trim_end_matches(['\r', '\n']);
        if line.is_empty() {
            continue;
        }
        if line == "flush" {
            let _ = out.flush();
            continue;
        }
        let mut parts = line.split('\t');
        let op = parts.next().unwrap_or("");
        if op == "quit" {
            break;
        }
        let mut m = HashMap::new();
        for p in parts {
            if let Some((k, v)) = p.split_once('=') {
                m.insert(k, v);
            }
        }
        let args = Args { m };
        let id = args.opt("id").and_then(|s| s.parse::<u64>().ok());
        hook::log_take();
        let (r, draws) = if args.flag("nt") {
            // the call runs on a freshly spawned thread (objects move there and back)
            let ctx_ref = &mut ctx;
            let args_ref = &args;
            std::thread::scope(|sc| {
                sc.spawn(move || {
                    hook::log_enable(true);
                    let r = catch_unwind(AssertUnwindSafe(|| run(ctx_ref, op, args_ref)));
                    let mut r = r;
                    if r.is_err() {
                        // carry the panic text over to the main thread's slot
                        let msg = LAST_PANIC.with(|p| p.borrow_mut().take()).unwrap_or_else(|| "?".into());
                        r = Ok(Err(Reply::Err(vec![("panic_on_fresh_thread", msg)])));
                    }
                    (r, hook::log_take())
                })
                .join()
                .unwrap_or_else(|_| (Ok(Err(Reply::Err(vec![("panic_on_fresh_thread", "thread died".to_string())]))), Vec::new()))
            })
        } else {
            let r = catch_unwind(AssertUnwindSafe(|| run(&mut ctx, op, &args)));
            (r, hook::log_take())
        };
        let (status, fields): (&str, Vec<(&'static str, String)>) = match r {
            Ok(Ok(f)) => ("ok", f),
            Ok(Err(Reply::Err(f))) if f.first().map(|x| x.0) == Some("panic_on_fresh_thread") => ("panic", vec![("msg", f[0].1.clone())]),
            Ok(Err(Reply::Err(f))) => ("err", f),
            Ok(Err(Reply::Bad(s))) => ("bad", vec![("msg", s.replace(['\n', '\t'], " "))]),
            Err(_) => {
                let msg = LAST_PANIC.with(|p| p.borrow_mut().take()).unwrap_or_else(|| "?".into());
                ("panic", vec![("msg", msg)])
            }
        };
        let mut s = String::with_capacity(256);
        s.push_str(status);
        if let Some(id) = id {
            s.push_str(&format!("\tid={}", id));
        }
        for (k, v) in &fields {
            s.push('\t');
            s.push_str(k);
            s.push('=');
            s.push_str(v);
            if let Some(id) = id {
                if (status == "ok" || status == "err") && op != "census" && op != "mt_logins" {
                    if let Ok(b) = unhex(v) {
                        let key = (id, k.to_string());
                        if ctx.store.insert(key.clone(), b).is_none() {
                            ctx.store_order.push_back(key);
                        }
                    }
                }
            }
        }
        while ctx.store_order.len() > STORE_CAP {
            if let Some(k) = ctx.store_order.pop_front() {
                ctx.store.remove(&k);
            }
        }
        s.push_str("\trng=");
        s.push_str(&draws.iter().map(|d| hex(d)).collect::<Vec<_>>().join(","));
        s.push('\n');
        if out.write_all(s.as_bytes()).is_err() {
            break;
        }
        // interactive drivers need the answer now; batch drivers send "flush"
        // themselves, but flushing per line is cheap compared with a modpow
        if out.flush().is_err() {
            break;
        }
    }
    let _ = out.flush();
}
