//! C12 — send and receive directions are independent; split, clone and unsplit lose nothing; threads.
use crate::objs;
use crate::faultio::{Fail, FragReader, FragWriter, FAIL_KINDS};
use crate::util::*;
use wow_srp::{tbc_header, vanilla_header, wrath_header};

/// Write / Read wrappers, available on the combined object and on the halves alike (C12 compares the two, whatever the
/// sink or source does).
pub trait IoEnc {
    fn write_hdr(&mut self, w: &mut FragWriter, sel: u64, a: u32, b: u32) -> std::io::Result<()>;
}
pub trait IoDec {
    fn read_hdr(&mut self, r: &mut FragReader, sel: u64) -> std::io::Result<(u32, u32)>;
}
macro_rules! io_add {
    ($($t:ty),*) => {$(
        impl IoEnc for $t {
            fn write_hdr(&mut self, w: &mut FragWriter, sel: u64, a: u32, b: u32) -> std::io::Result<()> {
                if sel & 1 == 1 {
                    self.write_encrypted_server_header(w, a as u16, b as u16)
                } else {
                    self.write_encrypted_client_header(w, a as u16, b)
                }
            }
        }
    )*};
}
macro_rules! io_add_dec {
    ($($t:ty),*) => {$(
        impl IoDec for $t {
            fn read_hdr(&mut self, r: &mut FragReader, sel: u64) -> std::io::Result<(u32, u32)> {
                if sel & 1 == 1 {
                    self.read_and_decrypt_server_header(r).map(|h| (h.size as u32, h.opcode as u32))
                } else {
                    self.read_and_decrypt_client_header(r).map(|h| (h.size as u32, h.opcode))
                }
            }
        }
    )*};
}
io_add!(vanilla_header::HeaderCrypto, vanilla_header::EncrypterHalf, tbc_header::HeaderCrypto, tbc_header::EncrypterHalf);
io_add_dec!(vanilla_header::HeaderCrypto, vanilla_header::DecrypterHalf, tbc_header::HeaderCrypto, tbc_header::DecrypterHalf);
macro_rules! io_wrath {
    ($($t:ty),*; $($u:ty),*; $($v:ty),*; $($x:ty),*) => {
        $(impl IoEnc for $t {
            fn write_hdr(&mut self, w: &mut FragWriter, _sel: u64, a: u32, b: u32) -> std::io::Result<()> {
                self.write_encrypted_client_header(w, a as u16, b)
            }
        })*
        $(impl IoEnc for $u {
            fn write_hdr(&mut self, w: &mut FragWriter, sel: u64, a: u32, b: u32) -> std::io::Result<()> {
                self.write_encrypted_server_header(w, if sel & 1 == 1 { a & 0x7FFF } else { a & 0x7F_FFFF }, b as u16)
            }
        })*
        $(impl IoDec for $v {
            fn read_hdr(&mut self, r: &mut FragReader, _sel: u64) -> std::io::Result<(u32, u32)> {
                self.read_and_decrypt_server_header(r).map(|h| (h.size, h.opcode as u32))
            }
        })*
        $(impl IoDec for $x {
            fn read_hdr(&mut self, r: &mut FragReader, _sel: u64) -> std::io::Result<(u32, u32)> {
                self.read_and_decrypt_client_header(r).map(|h| (h.size as u32, h.opcode))
            }
        })*
    };
}
io_wrath!(wrath_header::ClientCrypto, wrath_header::ClientEncrypterHalf; wrath_header::ServerCrypto, wrath_header::ServerEncrypterHalf;
          wrath_header::ClientCrypto, wrath_header::ClientDecrypterHalf; wrath_header::ServerCrypto, wrath_header::ServerDecrypterHalf);

/// A combined object and a pair of separate halves (split off a copy at the start) receive the same calls, among them
/// Write / Read wrapper calls whose sink or source takes short writes, delivers fragments, is interrupted or *fails*
/// part-way. Per direction both must return the same results and stay in step with each other afterwards, whatever the
/// wrapper does with its state on a failure (that is C11's business; here only combined == separate counts).
pub fn io_equivalence<W>(rep: &mut Rep, k: [u8; 40], seed: u64, steps: usize)
where
    W: Whole + IoEnc + IoDec,
    W::E: IoEnc,
    W::D: IoDec,
{
    let replay = format!("ioeq {} {} {} {}", W::NAME, hex(&k), seed, steps);
    let mut rng = Rng::new(seed, 0x10e9);
    let made = guard(|| {
        let (w, _, _) = W::make(k);
        let (e, d) = w.clone().split();
        (w, e, d)
    });
    let (mut whole, mut e, mut d) = match made {
        Ok(x) => x,
        Err(err) => {
            rep.violation(&format!("c12:{}:panic:construct", W::NAME), err, replay);
            return;
        }
    };
    let mut trace: Vec<String> = Vec::new();
    for step in 0..steps {
        let op = rng.below(10);
        let fail = match rng.below(3) {
            0 => Fail::None,
            _ => FAIL_KINDS[rng.below(FAIL_KINDS.len() as u64) as usize],
        };
        let (cuts, intr, acc, sel) = (rng.below(64) as u32, rng.chance(1, 3), rng.below(7) as usize, rng.next());
        rep.ev(1);
        let verdict: Result<Option<String>, String> = guard(|| match op {
            0..=2 => {
                let len = [0usize, 1, 4, 5, 6, 40][rng.below(6) as usize] + rng.below(3) as usize;
                let p = rng.bytes(len);
                let (mut a, mut b) = (p.clone(), p);
                whole.enc(&mut a);
                e.enc(&mut b);
                trace.push(format!("enc{}", len));
                if a != b {
                    Some("send".to_string())
                } else {
                    None
                }
            }
            3..=4 => {
                let len = [0usize, 1, 4, 5, 6, 40][rng.below(6) as usize] + rng.below(3) as usize;
                let p = rng.bytes(len);
                let (mut a, mut b) = (p.clone(), p);
                whole.dec(&mut a);
                d.dec(&mut b);
                trace.push(format!("dec{}", len));
                if a != b {
                    Some("receive".to_string())
                } else {
                    None
                }
            }
            5..=7 => {
                let (x, y) = (rng.next() as u32, rng.next() as u32);
                let mut w1 = FragWriter::new(acc, cuts, intr, fail);
                let mut w2 = FragWriter::new(acc, cuts, intr, fail);
                let r1 = whole.write_hdr(&mut w1, sel, x, y);
                let r2 = e.write_hdr(&mut w2, sel, x, y);
                trace.push(format!("write(acc{},{:?})->{}", acc, fail, if r1.is_ok() { "ok" } else { "err" }));
                if r1.is_ok() != r2.is_ok() || w1.sink != w2.sink {
                    Some("send".to_string())
                } else {
                    None
                }
            }
            _ => {
                let data = rng.bytes(8);
                let mut r1 = FragReader::new(&data, acc, cuts, intr, fail);
                let mut r2 = FragReader::new(&data, acc, cuts, intr, fail);
                let a = whole.read_hdr(&mut r1, sel);
                let b = d.read_hdr(&mut r2, sel);
                trace.push(format!("read(avail{},{:?})->{}", acc, fail, if a.is_ok() { "ok" } else { "err" }));
                if a.as_ref().ok() != b.as_ref().ok() || a.is_ok() != b.is_ok() || r1.pos != r2.pos {
                    Some("receive".to_string())
                } else {
                    None
                }
            }
        });
        match verdict {
            Err(err) => {
                rep.violation(&format!("c12:{}:panic:io_equivalence", W::NAME), err, replay);
                return;
            }
            Ok(Some(dir)) => {
                rep.violation(
                    &format!("c12:{}:combined_differs_from_separate_halves:{}", W::NAME, dir),
                    format!(
                        "step {}: the combined object and a separate half given the same calls (incl. wrapper calls with short / failing sinks and sources) disagree in the {} direction; last calls {:?}",
                        step, dir, &trace[trace.len().saturating_sub(6)..]
                    ),
                    replay,
                );
                return;
            }
            Ok(None) => {}
        }
        if op >= 5 {
            rep.count(if matches!(fail, Fail::None) { "wrapper_calls_on_combined_and_half_ok_sink" } else { "wrapper_calls_on_combined_and_half_failing_sink" }, 1);
        }
    }
    rep.count("io_equivalence_histories", 1);
}

pub trait EncH: Clone + Send + 'static {
    fn enc(&mut self, d: &mut [u8]);
}
pub trait DecH: Clone + Send + 'static {
    fn dec(&mut self, d: &mut [u8]);
}
pub trait Whole: Clone + PartialEq + Send + 'static {
    type E: EncH;
    type D: DecH;
    const NAME: &'static str;
    fn enc(&mut self, d: &mut [u8]);
    fn dec(&mut self, d: &mut [u8]);
    fn split(self) -> (Self::E, Self::D);
    /// None: the expansion has no unsplit
    fn unsplit(e: Self::E, d: Self::D) -> Option<Result<Self, ()>>;
    /// typed helper of the combined object for a 6-byte client header, re-serialised to the wire layout (None: no such helper)
    fn dec_typed6(&mut self, _d: [u8; 6]) -> Option<[u8; 6]> {
        None
    }
    fn enc_typed6(&mut self, _plain: [u8; 6]) -> Option<[u8; 6]> {
        None
    }
    /// replace the sending half through the `encrypter()` accessor by the sending half of `other`
    fn swap_encrypter(&mut self, other: &mut Self);
    /// (whole object under test, model of its encrypt direction, model producing what it must decrypt)
    fn make(k: [u8; 40]) -> (Self, Model, Model);
}


fn ser6(size: u16, opcode: u32) -> [u8; 6] {
    let s = size.to_be_bytes();
    let o = opcode.to_le_bytes();
    [s[0], s[1], o[0], o[1], o[2], o[3]]
}

#[derive(Clone)]
pub enum Model {
    Add(ModelAdd),
    Rc4(ModelRc4),
}
impl Model {
    fn enc(&mut self, d: &mut [u8]) {
        match self {
            Model::Add(m) => m.enc(d),
            Model::Rc4(m) => m.xor(d),
        }
    }
}

macro_rules! impl_half {
    ($e:ty, $d:ty) => {
        impl EncH for $e {
            fn enc(&mut self, d: &mut [u8]) {
                self.encrypt(d)
            }
        }
        impl DecH for $d {
            fn dec(&mut self, d: &mut [u8]) {
                self.decrypt(d)
            }
        }
    };
}
impl_half!(vanilla_header::EncrypterHalf, vanilla_header::DecrypterHalf);
impl_half!(tbc_header::EncrypterHalf, tbc_header::DecrypterHalf);
impl_half!(wrath_header::ClientEncrypterHalf, wrath_header::ClientDecrypterHalf);
impl_half!(wrath_header::ServerEncrypterHalf, wrath_header::ServerDecrypterHalf);

impl Whole for vanilla_header::HeaderCrypto {
    type E = vanilla_header::EncrypterHalf;
    type D = vanilla_header::DecrypterHalf;
    const NAME: &'static str = "vanilla";
    fn enc(&mut self, d: &mut [u8]) {
        self.encrypt(d)
    }
    fn dec(&mut self, d: &mut [u8]) {
        self.decrypt(d)
    }
    fn split(self) -> (Self::E, Self::D) {
        vanilla_header::HeaderCrypto::split(self)
    }
    fn unsplit(e: Self::E, d: Self::D) -> Option<Result<Self, ()>> {
        Some(e.unsplit(d).map_err(|_| ()))
    }
    fn make(k: [u8; 40]) -> (Self, Model, Model) {
        let (c, _s) = objs::vanilla_pair(k);
        (c, Model::Add(ModelAdd::new(&k)), Model::Add(ModelAdd::new(&k)))
    }
    fn dec_typed6(&mut self, d: [u8; 6]) -> Option<[u8; 6]> {
        let h = self.decrypt_client_header(d);
        Some(ser6(h.size, h.opcode))
    }
    fn enc_typed6(&mut self, p: [u8; 6]) -> Option<[u8; 6]> {
        Some(self.encrypt_client_header(u16::from_be_bytes([p[0], p[1]]), u32::from_le_bytes([p[2], p[3], p[4], p[5]])))
    }
    fn swap_encrypter(&mut self, other: &mut Self) {
        std::mem::swap(self.encrypter(), other.encrypter());
    }
}
impl Whole for tbc_header::HeaderCrypto {
    type E = tbc_header::EncrypterHalf;
    type D = tbc_header::DecrypterHalf;
    const NAME: &'static str = "tbc";
    fn enc(&mut self, d: &mut [u8]) {
        self.encrypt(d)
    }
    fn dec(&mut self, d: &mut [u8]) {
        self.decrypt(d)
    }
    fn split(self) -> (Self::E, Self::D) {
        tbc_header::HeaderCrypto::split(self)
    }
    fn unsplit(_e: Self::E, _d: Self::D) -> Option<Result<Self, ()>> {
        None
    }
    fn make(k: [u8; 40]) -> (Self, Model, Model) {
        let (c, _s) = objs::tbc_pair(k);
        let mk = tbc_key(&k);
        (c, Model::Add(ModelAdd::new(&mk)), Model::Add(ModelAdd::new(&mk)))
    }
    fn dec_typed6(&mut self, d: [u8; 6]) -> Option<[u8; 6]> {
        let h = self.decrypt_client_header(d);
        Some(ser6(h.size, h.opcode))
    }
    fn enc_typed6(&mut self, p: [u8; 6]) -> Option<[u8; 6]> {
        Some(self.encrypt_client_header(u16::from_be_bytes([p[0], p[1]]), u32::from_le_bytes([p[2], p[3], p[4], p[5]])))
    }
    fn swap_encrypter(&mut self, other: &mut Self) {
        std::mem::swap(self.encrypter(), other.encrypter());
    }
}
impl Whole for wrath_header::ClientCrypto {
    type E = wrath_header::ClientEncrypterHalf;
    type D = wrath_header::ClientDecrypterHalf;
    const NAME: &'static str = "wrath_client";
    fn enc(&mut self, d: &mut [u8]) {
        self.encrypt(d)
    }
    fn dec(&mut self, d: &mut [u8]) {
        self.decrypt(d)
    }
    fn split(self) -> (Self::E, Self::D) {
        wrath_header::ClientCrypto::split(self)
    }
    fn unsplit(_e: Self::E, _d: Self::D) -> Option<Result<Self, ()>> {
        None
    }
    fn make(k: [u8; 40]) -> (Self, Model, Model) {
        let (c, _s) = objs::wrath_pair(k);
        (c, Model::Rc4(wrath_model(&WRATH_S, &k)), Model::Rc4(wrath_model(&WRATH_R, &k)))
    }
    fn enc_typed6(&mut self, p: [u8; 6]) -> Option<[u8; 6]> {
        Some(self.encrypt_client_header(u16::from_be_bytes([p[0], p[1]]), u32::from_le_bytes([p[2], p[3], p[4], p[5]])))
    }
    fn swap_encrypter(&mut self, other: &mut Self) {
        std::mem::swap(self.encrypter(), other.encrypter());
    }
}
impl Whole for wrath_header::ServerCrypto {
    type E = wrath_header::ServerEncrypterHalf;
    type D = wrath_header::ServerDecrypterHalf;
    const NAME: &'static str = "wrath_server";
    fn enc(&mut self, d: &mut [u8]) {
        self.encrypt(d)
    }
    fn dec(&mut self, d: &mut [u8]) {
        self.decrypt(d)
    }
    fn split(self) -> (Self::E, Self::D) {
        wrath_header::ServerCrypto::split(self)
    }
    fn unsplit(_e: Self::E, _d: Self::D) -> Option<Result<Self, ()>> {
        None
    }
    fn make(k: [u8; 40]) -> (Self, Model, Model) {
        let (_c, s) = objs::wrath_pair(k);
        (s, Model::Rc4(wrath_model(&WRATH_R, &k)), Model::Rc4(wrath_model(&WRATH_S, &k)))
    }
    fn dec_typed6(&mut self, d: [u8; 6]) -> Option<[u8; 6]> {
        let h = self.decrypt_client_header(d);
        Some(ser6(h.size, h.opcode))
    }
    fn swap_encrypter(&mut self, other: &mut Self) {
        std::mem::swap(self.encrypter(), other.encrypter());
    }
}

#[derive(Clone)]
enum Rep1<W: Whole> {
    Whole(W),
    Halves(W::E, W::D),
    Dead,
}

/// One random history on one session key. Ops: 0 enc chunk, 1 dec chunk, 2 split, 3 clone, 4 unsplit.
pub fn history<W: Whole>(rep: &mut Rep, k: [u8; 40], hseed: u64, max_ops: usize, max_chunk: usize) {
    let mut rng = Rng::new(hseed, 0x12);
    let replay = format!("history {} {} {} {} {}", W::NAME, hex(&k), hseed, max_ops, max_chunk);
    let (obj, mut m_enc, mut m_peer) = match guard(|| W::make(k)) {
        Ok(x) => x,
        Err(e) => {
            rep.violation(&format!("c12:{}:panic:construct", W::NAME), e, replay);
            return;
        }
    };
    let mut replicas: Vec<Rep1<W>> = vec![Rep1::Whole(obj)];
    let n_ops = 1 + rng.below(max_ops as u64) as usize;
    let mut last2 = (9u64, 9u64);
    let mut swapped = false;
    let mut trace: Vec<u8> = Vec::new();
    for step in 0..n_ops {
        let op = match rng.below(22) {
            0..=7 => 0u64,
            8..=15 => 1,
            16 => 2,
            17 => 3,
            18 | 19 => 4,
            _ => 5,
        };
        trace.push(op as u8);
        match op {
            0 | 1 => {
                let len = match rng.below(7) {
                    0 => 0,
                    6 => 6,
                    1 => 1 + rng.below(6) as usize,
                    2 => 39 + rng.below(4) as usize,
                    _ => rng.below(max_chunk as u64 + 1) as usize,
                };
                let plain = rng.bytes(len);
                let (input, expect) = if op == 0 {
                    let mut e = plain.clone();
                    m_enc.enc(&mut e);
                    (plain.clone(), e)
                } else {
                    let mut w = plain.clone();
                    m_peer.enc(&mut w);
                    (w, plain.clone())
                };
                let typed = len == 6 && rng.chance(1, 2);
                for (ri, r) in replicas.iter_mut().enumerate() {
                    let mut d = input.clone();
                    let res = guard(|| match r {
                        Rep1::Whole(w) => {
                            // the typed helper of the combined object for header-sized chunks, else the raw call
                            let mut done = false;
                            if typed {
                                let a6 = [d[0], d[1], d[2], d[3], d[4], d[5]];
                                let out = if op == 0 { w.enc_typed6(a6) } else { w.dec_typed6(a6) };
                                if let Some(o) = out {
                                    d.copy_from_slice(&o);
                                    done = true;
                                }
                            }
                            if !done {
                                if op == 0 {
                                    w.enc(&mut d)
                                } else {
                                    w.dec(&mut d)
                                }
                            }
                        }
                        Rep1::Halves(e, x) => {
                            if op == 0 {
                                e.enc(&mut d)
                            } else {
                                x.dec(&mut d)
                            }
                        }
                        Rep1::Dead => {}
                    });
                    rep.ev(1);
                    if let Err(e) = res {
                        rep.violation(&format!("c12:{}:panic:{}", W::NAME, if op == 0 { "encrypt" } else { "decrypt" }), e, replay.clone());
                        return;
                    }
                    if d != expect {
                        let state = match r {
                            Rep1::Whole(_) => "combined",
                            Rep1::Halves(..) => "split",
                            Rep1::Dead => "dead",
                        };
                        rep.violation(
                            &format!("c12:{}:{}_stream_disturbed:{}", W::NAME, if op == 0 { "send" } else { "receive" }, state),
                            format!(
                                "step {} ({} of {} bytes) on replica {} ({}): output differs from the separate per-direction model after op trace {:?}",
                                step, if op == 0 { "encrypt" } else { "decrypt" }, len, ri, state, &trace[trace.len().saturating_sub(12)..]
                            ),
                            replay.clone(),
                        );
                        return;
                    }
                }
            }
            2 => {
                let i = rng.below(replicas.len() as u64) as usize;
                if matches!(replicas[i], Rep1::Whole(_)) {
                    if let Rep1::Whole(w) = std::mem::replace(&mut replicas[i], Rep1::Dead) {
                        match guard(|| w.split()) {
                            Ok((e, d)) => replicas[i] = Rep1::Halves(e, d),
                            Err(e) => {
                                rep.violation(&format!("c12:{}:panic:split", W::NAME), e, replay);
                                return;
                            }
                        }
                        rep.count("splits", 1);
                    }
                }
            }
            3 => {
                let i = rng.below(replicas.len() as u64) as usize;
                let c = if rng.chance(1, 2) {
                    replicas[i].clone()
                } else {
                    // the copy is made in place over an object that served another connection (Clone::clone_from, as
                    // Vec::clone_from, Option::clone_from and object pools do)
                    // ... or an earlier state of this very connection (same session key: a snapshot being restored)
                    let same_key = rng.chance(1, 2);
                    let k2: [u8; 40] = if same_key { k } else { rng.arr() };
                    rep.hist("clone_from_target", if same_key { "same_session_key" } else { "other_session_key" }, 1);
                    let src = &replicas[i];
                    let made = guard(|| {
                        let (f, _, _) = W::make(k2);
                        let mut junk = [0x21u8; 13];
                        match src {
                            Rep1::Whole(w) => {
                                let mut f = f;
                                f.enc(&mut junk);
                                f.dec(&mut junk);
                                f.clone_from(w);
                                Rep1::Whole(f)
                            }
                            Rep1::Halves(e, d) => {
                                let (mut e2, mut d2) = f.split();
                                e2.enc(&mut junk);
                                d2.dec(&mut junk);
                                e2.clone_from(e);
                                d2.clone_from(d);
                                Rep1::Halves(e2, d2)
                            }
                            Rep1::Dead => Rep1::Dead,
                        }
                    });
                    rep.count("clones_made_in_place_by_clone_from", 1);
                    match made {
                        Ok(x) => x,
                        Err(e) => {
                            rep.violation(&format!("c12:{}:panic:clone_from", W::NAME), e, replay);
                            return;
                        }
                    }
                };
                if replicas.len() < 3 {
                    replicas.push(c);
                } else {
                    let j = rng.below(3) as usize;
                    replicas[j] = c;
                }
                rep.count("clones", 1);
            }
            5 => {
                // every replica gets its sending half replaced (through the accessor, or by assignment when split) by the
                // sending half of a fresh object with another key; the receive direction must not notice
                let k2: [u8; 40] = rng.arr();
                let made = guard(|| W::make(k2));
                let (fresh, m2, _) = match made {
                    Ok(x) => x,
                    Err(e) => {
                        rep.violation(&format!("c12:{}:panic:construct", W::NAME), e, replay);
                        return;
                    }
                };
                for r in replicas.iter_mut() {
                    let mut other = fresh.clone();
                    match r {
                        Rep1::Whole(w) => w.swap_encrypter(&mut other),
                        Rep1::Halves(e, _) => {
                            let (e2, _) = other.split();
                            *e = e2;
                        }
                        Rep1::Dead => {}
                    }
                }
                m_enc = m2;
                swapped = true;
                rep.count("sending_half_replaced", 1);
            }
            _ => {
                let i = rng.below(replicas.len() as u64) as usize;
                if let Rep1::Halves(..) = replicas[i] {
                    if let Rep1::Halves(e, d) = std::mem::replace(&mut replicas[i], Rep1::Dead) {
                        match guard(|| W::unsplit(e.clone(), d.clone())) {
                            Ok(None) => replicas[i] = Rep1::Halves(e, d),
                            Ok(Some(Err(()))) if swapped => {
                                // the halves carry different keys now: refusing is right
                                replicas[i] = Rep1::Halves(e, d);
                                rep.count("unsplit_refused_after_half_replaced", 1);
                            }
                            Ok(Some(Ok(_))) if swapped => {
                                rep.violation(
                                    &format!("c12:{}:unsplit_accepts_different_keys:after_swap", W::NAME),
                                    "unsplit joined halves that carry different session keys".into(),
                                    replay,
                                );
                                return;
                            }
                            Ok(Some(Ok(w))) => {
                                replicas[i] = Rep1::Whole(w);
                                rep.count("unsplits_ok", 1);
                            }
                            Ok(Some(Err(()))) => {
                                rep.violation(
                                    &format!("c12:{}:unsplit_refused_same_key", W::NAME),
                                    format!("unsplit of two halves of the same object was refused (step {}, trace {:?})", step, &trace[trace.len().saturating_sub(12)..]),
                                    replay,
                                );
                                return;
                            }
                            Err(e) => {
                                rep.violation(&format!("c12:{}:panic:unsplit", W::NAME), e, replay);
                                return;
                            }
                        }
                    }
                }
            }
        }
        rep.cell(&[W::NAME.len() as u64, last2.0, last2.1, op]);
        last2 = (last2.1, op);
    }
    rep.count("histories", 1);
    rep.sample(format!("{} key {}.. ops {:?}", W::NAME, &hex(&k)[..12], &trace[..trace.len().min(24)]));
}

/// The two halves on two threads, each processing its own stream; compared with the models.
pub fn threaded<W: Whole>(rep: &mut Rep, k: [u8; 40], seed: u64, msgs: usize, yields: bool) {
    let replay = format!("threaded {} {} {} {}", W::NAME, hex(&k), seed, msgs);
    let (obj, m_enc, m_peer) = W::make(k);
    let (mut e, mut d) = obj.split();
    let mut r1 = Rng::new(seed, 1);
    let mut r2 = Rng::new(seed, 2);
    let t1 = std::thread::spawn(move || {
        let mut m = m_enc;
        let mut bad: Option<usize> = None;
        for i in 0..msgs {
            let len = r1.below(48) as usize;
            let plain = r1.bytes(len);
            let mut want = plain.clone();
            m.enc(&mut want);
            let mut got = plain;
            e.enc(&mut got);
            if got != want && bad.is_none() {
                bad = Some(i);
            }
            if yields && r1.chance(1, 3) {
                std::thread::yield_now();
            }
        }
        bad
    });
    let t2 = std::thread::spawn(move || {
        let mut m = m_peer;
        let mut bad: Option<usize> = None;
        for i in 0..msgs {
            let len = r2.below(48) as usize;
            let plain = r2.bytes(len);
            let mut wire = plain.clone();
            m.enc(&mut wire);
            d.dec(&mut wire);
            if wire != plain && bad.is_none() {
                bad = Some(i);
            }
            if yields && r2.chance(1, 3) {
                std::thread::yield_now();
            }
        }
        bad
    });
    let a = t1.join();
    let b = t2.join();
    rep.ev(1);
    match (a, b) {
        (Ok(None), Ok(None)) => {
            rep.count("threaded_rounds", 1);
        }
        (Ok(x), Ok(y)) => {
            rep.violation(
                &format!("c12:{}:threaded_halves_disturb_each_other", W::NAME),
                format!("halves on two threads: first wrong message send={:?} receive={:?}", x, y),
                replay,
            );
        }
        _ => {
            rep.violation(&format!("c12:{}:panic:threaded", W::NAME), "a thread driving one half panicked".into(), replay);
        }
    }
}

/// Wrath client: server headers decoded through the two-step API with clone / split taking place between the
/// 4-byte attempt and the fifth byte; every replica (original and clones, combined or split) must finish the header.
pub fn wrath_two_step(rep: &mut Rep, k: [u8; 40], seed: u64, headers: usize) {
    use wow_srp::wrath_header::{ClientCrypto, ClientDecrypterHalf, ClientEncrypterHalf, WrathServerAttempt};
    let mut rng = Rng::new(seed, 0x125);
    let replay = format!("twostep {} {} {}", hex(&k), seed, headers);
    let (client, _server) = match guard(|| objs::wrath_pair(k)) {
        Ok(p) => p,
        Err(e) => {
            rep.violation("c12:wrath_client:panic:construct", e, replay);
            return;
        }
    };
    #[derive(Clone)]
    enum R {
        Whole(ClientCrypto),
        Halves(ClientEncrypterHalf, ClientDecrypterHalf),
    }
    let mut model = wrath_model(&WRATH_R, &k);
    let mut reps: Vec<R> = vec![R::Whole(client)];
    let mut trace: Vec<String> = Vec::new();
    for _ in 0..headers {
        let long = rng.chance(2, 3);
        let size: u32 = if long { 0x8000 + rng.below(0x7F8000) as u32 } else { rng.below(0x8000) as u32 };
        let op: u16 = rng.next() as u16;
        let mut wire = crate::c10::layout(size, op);
        model.xor(&mut wire);
        let first = [wire[0], wire[1], wire[2], wire[3]];
        // step 1 on every replica
        let mut pending = true;
        for r in reps.iter_mut() {
            rep.ev(1);
            let a = guard(|| match r {
                R::Whole(w) => w.attempt_decrypt_server_header(first),
                R::Halves(_, d) => d.attempt_decrypt_server_header(first),
            });
            match a {
                Err(e) => {
                    rep.violation("c12:wrath_client:panic:attempt", e, replay);
                    return;
                }
                Ok(WrathServerAttempt::Header(h)) => {
                    pending = false;
                    if long || (h.size, h.opcode) != (size, op) {
                        rep.violation(
                            "c12:wrath_client:two_step_header_wrong:short",
                            format!("attempt returned ({:#x},{:#x}) for sent ({:#x},{:#x}) after {:?}", h.size, h.opcode, size, op, &trace[trace.len().saturating_sub(8)..]),
                            replay,
                        );
                        return;
                    }
                }
                Ok(WrathServerAttempt::AdditionalByteRequired) => {
                    if !long {
                        rep.violation("c12:wrath_client:two_step_header_wrong:short", "fifth byte requested for a short header".into(), replay);
                        return;
                    }
                }
            }
        }
        if !long {
            trace.push("short".into());
            continue;
        }
        let _ = pending;
        // between the two steps: clone / split / nothing
        match rng.below(4) {
            0 => {
                let i = rng.below(reps.len() as u64) as usize;
                let c = reps[i].clone();
                if reps.len() < 3 {
                    reps.push(c);
                } else {
                    let j = rng.below(3) as usize;
                    reps[j] = c;
                }
                trace.push("attempt,clone".into());
                rep.count("clones_between_attempt_and_fifth_byte", 1);
            }
            1 => {
                let i = rng.below(reps.len() as u64) as usize;
                if let R::Whole(w) = reps[i].clone() {
                    let (e, d) = w.split();
                    reps[i] = R::Halves(e, d);
                    rep.count("splits_between_attempt_and_fifth_byte", 1);
                }
                trace.push("attempt,split".into());
            }
            2 => {
                // clone of the decrypter half only
                let i = rng.below(reps.len() as u64) as usize;
                if let R::Halves(e, d) = &reps[i] {
                    let d2 = d.clone();
                    let e2 = e.clone();
                    reps[i] = R::Halves(e2, d2);
                    rep.count("half_clones_between_attempt_and_fifth_byte", 1);
                }
                trace.push("attempt,halfclone".into());
            }
            _ => {
                // the sending direction of the same objects, and another connection on this thread, are used in between
                for r in reps.iter_mut() {
                    match r {
                        R::Whole(w) => {
                            let _ = w.encrypt_client_header(6, 0x1dc);
                        }
                        R::Halves(e, _) => {
                            let _ = e.encrypt_client_header(6, 0x1dc);
                        }
                    }
                }
                let (mut oc, mut os) = objs::wrath_pair([0x33; 40]);
                let w3 = os.encrypt_server_header(0x654321, 9).to_vec();
                let _ = oc.attempt_decrypt_server_header([w3[0], w3[1], w3[2], w3[3]]);
                trace.push("attempt,other_use".into());
            }
        }
        for (ri, r) in reps.iter_mut().enumerate() {
            rep.ev(1);
            let h = guard(|| match r {
                R::Whole(w) => w.decrypt_large_server_header(wire[4]),
                R::Halves(_, d) => d.decrypt_large_server_header(wire[4]),
            });
            match h {
                Err(e) => {
                    rep.violation("c12:wrath_client:panic:fifth_byte", e, replay);
                    return;
                }
                Ok(h) => {
                    if (h.size, h.opcode) != (size, op) {
                        rep.violation(
                            "c12:wrath_client:two_step_header_wrong:long",
                            format!(
                                "replica {} completed the 5-byte header as ({:#x},{:#x}), sent ({:#x},{:#x}); recent steps {:?}",
                                ri, h.size, h.opcode, size, op, &trace[trace.len().saturating_sub(8)..]
                            ),
                            replay,
                        );
                        return;
                    }
                }
            }
        }
        rep.cell(&[55, trace.last().map(|t| t.len()).unwrap_or(0) as u64]);
    }
    rep.count("two_step_histories", 1);
}

/// One object is handed from thread to thread between segments of its traffic (and a clone stays behind on the old thread).
pub fn migrating<W: Whole>(rep: &mut Rep, k: [u8; 40], seed: u64, hops: usize) {
    let replay = format!("migrate {} {} {} {}", W::NAME, hex(&k), seed, hops);
    let (mut obj, mut m_enc, mut m_peer) = W::make(k);
    let mut rng = Rng::new(seed, 0x126);
    for hop in 0..hops {
        let mut r2 = Rng::new(rng.next(), hop as u64);
        let left_behind = obj.clone();
        let h = std::thread::spawn(move || {
            let mut bad: Option<String> = None;
            for i in 0..6 {
                let len = r2.below(40) as usize;
                let plain = r2.bytes(len);
                if r2.chance(1, 2) {
                    let mut want = plain.clone();
                    m_enc.enc(&mut want);
                    let mut got = plain;
                    obj.enc(&mut got);
                    if got != want && bad.is_none() {
                        bad = Some(format!("encrypt op {} after hop", i));
                    }
                } else {
                    let mut wire = plain.clone();
                    m_peer.enc(&mut wire);
                    obj.dec(&mut wire);
                    if wire != plain && bad.is_none() {
                        bad = Some(format!("decrypt op {} after hop", i));
                    }
                }
            }
            (obj, m_enc, m_peer, bad)
        });
        // the clone left on this thread is used and dropped meanwhile
        let mut lb = left_behind;
        let mut junk = rng.bytes(9);
        lb.enc(&mut junk);
        drop(lb);
        match h.join() {
            Ok((o, a, b, bad)) => {
                obj = o;
                m_enc = a;
                m_peer = b;
                rep.ev(1);
                if let Some(what) = bad {
                    rep.violation(
                        &format!("c12:{}:object_moved_between_threads", W::NAME),
                        format!("hop {}: {} differs from the per-direction model after the object moved to another thread", hop, what),
                        replay,
                    );
                    return;
                }
            }
            Err(_) => {
                rep.violation(&format!("c12:{}:panic:migrating", W::NAME), "a thread using a moved object panicked".into(), replay);
                return;
            }
        }
    }
    rep.count("migrations", hops as u64);
    rep.cell(&[56, W::NAME.len() as u64]);
}

/// A half created at the start is kept alive and must never pair with the halves of the very many objects with other
/// session keys that the process creates afterwards.
pub fn old_half_sweep(rep: &mut Rep, rng: &mut Rng, objects: usize) {
    // several old halves, created at different moments of the process
    let mut olds = Vec::new();
    for _ in 0..32 {
        let k0: [u8; 40] = rng.arr();
        olds.push(objs::vanilla_pair(k0).0.split());
        let _ = objs::vanilla_pair(rng.arr());
    }
    let mut bad = 0u64;
    for i in 0..objects {
        let k: [u8; 40] = rng.arr();
        let (c, s) = objs::vanilla_pair(k);
        let (e1, d1) = c.split();
        let (e2, d2) = s.split();
        let mut hit = false;
        for (old_e, old_d) in olds.iter() {
            if old_e.is_pair_of(&d1) || old_e.is_pair_of(&d2) || old_d.is_pair_of(&e1) || old_d.is_pair_of(&e2) {
                hit = true;
            }
        }
        if hit {
            bad += 1;
            if bad == 1 {
                rep.violation(
                    "c12:vanilla:unsplit_accepts_different_keys:old_half_vs_later_object",
                    format!("a half created earlier in the process pairs with the halves of object number {} created later although the session keys differ", i),
                    format!("oldhalf {}", objects),
                );
            }
        }
    }
    rep.ev(objects as u64);
    rep.count("objects_tested_against_32_old_halves", 2 * objects as u64);
    rep.cell(&[57, 0]);
}

pub fn unsplit_pairs(rep: &mut Rep, rng: &mut Rng) {
    use vanilla_header::HeaderCrypto;
    let k: [u8; 40] = rng.arr();
    let replay = format!("unsplit {}", hex(&k));
    let mk = |k: [u8; 40]| -> HeaderCrypto { objs::vanilla_pair(k).0 };
    // same key after arbitrary, different use on both halves
    {
        let (mut e, mut d) = mk(k).split();
        let n1 = rng.below(300) as usize;
        let mut x = rng.bytes(n1);
        e.encrypt(&mut x);
        let n2 = rng.below(300) as usize;
        let mut y = rng.bytes(n2);
        d.decrypt(&mut y);
        rep.ev(1);
        let p1 = e.is_pair_of(&d);
        let p2 = d.is_pair_of(&e);
        let r = e.unsplit(d);
        if !(p1 && p2 && r.is_ok()) {
            rep.violation("c12:vanilla:unsplit_same_key_refused", format!("same key: is_pair_of {} / {}, unsplit ok {}", p1, p2, r.is_ok()), replay.clone());
        }
        // halves of two *different objects* with the same key are also a pair
        let (e1, _) = mk(k).split();
        let (_, d2) = mk(k).split();
        rep.ev(1);
        if !(e1.is_pair_of(&d2) && d2.is_pair_of(&e1) && e1.unsplit(d2).is_ok()) {
            rep.violation("c12:vanilla:unsplit_same_key_refused", "halves of two objects built from the same session key were refused".into(), replay.clone());
        }
        rep.cell(&[40, 0]);
    }
    // keys differing in exactly one bit: all 320
    for bit in 0..320 {
        let mut k2 = k;
        k2[bit / 8] ^= 1 << (bit % 8);
        let (e, _) = mk(k).split();
        let (_, d) = mk(k2).split();
        rep.ev(1);
        let p1 = e.is_pair_of(&d);
        let p2 = d.is_pair_of(&e);
        let r = guard(|| e.unsplit(d).is_ok());
        match r {
            Ok(ok) => {
                if p1 || p2 || ok {
                    rep.violation(
                        &format!("c12:vanilla:unsplit_accepts_different_keys:byte{}", bit / 8),
                        format!("keys differing only in bit {} (byte {}): is_pair_of {} / {}, unsplit ok {}", bit, bit / 8, p1, p2, ok),
                        replay.clone(),
                    );
                }
            }
            Err(e) => rep.violation("c12:vanilla:panic:unsplit", e, replay.clone()),
        }
        rep.cell(&[41, bit as u64]);
    }
    // differences that cancel under XOR / addition, and the same bytes in another order
    for k2 in crate::streams::permuted_keys(&k, rng) {
        if k2 == k {
            continue;
        }
        let (e, _) = mk(k).split();
        let (_, d) = mk(k2).split();
        rep.ev(1);
        let p1 = e.is_pair_of(&d);
        let p2 = d.is_pair_of(&e);
        let ok = e.unsplit(d).is_ok();
        if p1 || p2 || ok {
            rep.violation(
                "c12:vanilla:unsplit_accepts_different_keys:cancelling_difference",
                format!("keys {} and {} (same bytes reordered / cancelling difference): is_pair_of {} / {}, unsplit ok {}", hex(&k), hex(&k2), p1, p2, ok),
                replay.clone(),
            );
        }
        rep.cell(&[42, 0]);
    }
    // unrelated keys
    let (e, _) = mk(k).split();
    let (_, d) = mk(rng.arr()).split();
    rep.ev(1);
    if e.is_pair_of(&d) || d.is_pair_of(&e) || e.unsplit(d).is_ok() {
        rep.violation("c12:vanilla:unsplit_accepts_different_keys:unrelated", "unrelated keys accepted".into(), replay);
    }
    rep.count("unsplit_key_sets", 1);
}

pub fn run(tier: &str, seed: u64) -> Rep {
    let mut total = Rep::new();
    total.rule = "random histories over {encrypt chunk, decrypt chunk, split, clone-and-continue-on-all-replicas, unsplit} on real objects \
(vanilla, tbc, wrath client, wrath server); per direction the outputs of every replica are compared with two separate model streams; \
unsplit pairs: same key after use, two objects of one key, all 320 one-bit key differences, unrelated; halves on two OS threads with \
yields compared with the models. distinct = op-kind 3-grams per expansion + unsplit key-pair cells"
        .to_string();
    let (nhist, max_ops, max_chunk, rounds, ksets): (usize, usize, usize, usize, usize) = match tier {
        "quick" => (16_000, 400, 300, 2000, 40),
        "thorough" => (1_200_000, 400, 300, 100_000, 6000),
        _ => (2, 14, 40, 2, 0),
    };
    let shards = if tier == "miri" { 1 } else { 64 };
    let r = par(shards, if tier == "miri" { 1 } else { threads() }, |sh| {
        let mut rep = Rep::new();
        let mut rng = Rng::new(seed, 0x12000 + sh as u64);
        let per = (nhist + shards - 1) / shards;
        for i in 0..per {
            let k: [u8; 40] = rng.arr();
            let hs = rng.next();
            let which = if tier == "miri" { [seed as usize % 2, 2 + (seed as usize / 2 % 2)][i % 2] } else { (sh + i) % 4 };
            match which {
                0 => history::<vanilla_header::HeaderCrypto>(&mut rep, k, hs, max_ops, max_chunk),
                1 => history::<tbc_header::HeaderCrypto>(&mut rep, k, hs, max_ops, max_chunk),
                2 => history::<wrath_header::ClientCrypto>(&mut rep, k, hs, max_ops, max_chunk),
                _ => history::<wrath_header::ServerCrypto>(&mut rep, k, hs, max_ops, max_chunk),
            }
        }
        for i in 0..(if tier == "miri" { 1 } else { per / 2 + 1 }) {
            let k: [u8; 40] = rng.arr();
            let hs = rng.next();
            let st = if tier == "miri" { 10 } else { 60 };
            match if tier == "miri" { seed as usize % 4 } else { (sh + i) % 4 } {
                0 => io_equivalence::<vanilla_header::HeaderCrypto>(&mut rep, k, hs, st),
                1 => io_equivalence::<tbc_header::HeaderCrypto>(&mut rep, k, hs, st),
                2 => io_equivalence::<wrath_header::ClientCrypto>(&mut rep, k, hs, st),
                _ => io_equivalence::<wrath_header::ServerCrypto>(&mut rep, k, hs, st),
            }
        }
        for _ in 0..(if tier == "miri" { (seed % 3 == 0) as usize } else { per / 4 + 1 }) {
            let k: [u8; 40] = rng.arr();
            let hs = rng.next();
            wrath_two_step(&mut rep, k, hs, if max_ops > 100 { 40 } else { 3 });
        }
        for _ in 0..(ksets + shards - 1) / shards {
            if ksets > 0 {
                unsplit_pairs(&mut rep, &mut rng);
            }
        }
        if tier != "miri" {
            old_half_sweep(&mut rep, &mut rng, if tier == "quick" { 10_000 } else { 200_000 });
        }
        rep
    });
    total.merge(r);
    // threads: natively, a few at a time
    let mut rep = Rep::new();
    let mut rng = Rng::new(seed, 0x12fff);
    let msgs = if tier == "miri" { 6 } else { 200 };
    for i in 0..rounds {
        let k: [u8; 40] = rng.arr();
        let s = rng.next();
        let which = if tier == "miri" { [0usize, 1 + (seed as usize % 3)][i % 2] } else { i % 4 };
        match which {
            0 => threaded::<vanilla_header::HeaderCrypto>(&mut rep, k, s, msgs, true),
            1 => threaded::<tbc_header::HeaderCrypto>(&mut rep, k, s, msgs, true),
            2 => threaded::<wrath_header::ClientCrypto>(&mut rep, k, s, msgs, true),
            _ => threaded::<wrath_header::ServerCrypto>(&mut rep, k, s, msgs, true),
        }
    }
    let nmig = match tier {
        "quick" => 400,
        "thorough" => 8000,
        _ => 1,
    };
    for i in 0..nmig {
        let k: [u8; 40] = rng.arr();
        let s = rng.next();
        let hops = if tier == "miri" { 2 } else { 6 };
        match if tier == "miri" { seed as usize % 2 } else { (i + seed as usize) % 4 } {
            0 => migrating::<vanilla_header::HeaderCrypto>(&mut rep, k, s, hops),
            1 => migrating::<tbc_header::HeaderCrypto>(&mut rep, k, s, hops),
            2 => migrating::<wrath_header::ClientCrypto>(&mut rep, k, s, hops),
            _ => migrating::<wrath_header::ServerCrypto>(&mut rep, k, s, hops),
        }
    }
    if tier == "miri" {
        let mut r2 = Rng::new(seed, 5);
        // a reduced unsplit sweep under the interpreter
        let k: [u8; 40] = r2.arr();
        let (e, _) = objs::vanilla_pair(k).0.split();
        let mut k2 = k;
        k2[39] ^= 0x80;
        let (_, d) = objs::vanilla_pair(k2).0.split();
        rep.ev(1);
        if e.is_pair_of(&d) || e.unsplit(d).is_ok() {
            rep.violation("c12:vanilla:unsplit_accepts_different_keys:byte39", "keys differing in the last bit accepted".into(), format!("unsplit {}", hex(&k)));
        }
    }
    total.merge(rep);
    total
}

pub fn replay(args: &[String]) -> Rep {
    let mut rep = Rep::new();
    if args.len() >= 6 && args[0] == "history" {
        let kb = unhex(&args[2]);
        let mut k = [0u8; 40];
        k.copy_from_slice(&kb[..40]);
        let hs: u64 = args[3].parse().unwrap_or(0);
        let mo: usize = args[4].parse().unwrap_or(400);
        let mc: usize = args[5].parse().unwrap_or(300);
        match args[1].as_str() {
            "vanilla" => history::<vanilla_header::HeaderCrypto>(&mut rep, k, hs, mo, mc),
            "tbc" => history::<tbc_header::HeaderCrypto>(&mut rep, k, hs, mo, mc),
            "wrath_client" => history::<wrath_header::ClientCrypto>(&mut rep, k, hs, mo, mc),
            _ => history::<wrath_header::ServerCrypto>(&mut rep, k, hs, mo, mc),
        }
    } else if args.len() >= 5 && args[0] == "threaded" {
        let kb = unhex(&args[2]);
        let mut k = [0u8; 40];
        k.copy_from_slice(&kb[..40]);
        let s: u64 = args[3].parse().unwrap_or(0);
        let msgs: usize = args[4].parse().unwrap_or(200);
        for _ in 0..50 {
            match args[1].as_str() {
                "vanilla" => threaded::<vanilla_header::HeaderCrypto>(&mut rep, k, s, msgs, true),
                "tbc" => threaded::<tbc_header::HeaderCrypto>(&mut rep, k, s, msgs, true),
                "wrath_client" => threaded::<wrath_header::ClientCrypto>(&mut rep, k, s, msgs, true),
                _ => threaded::<wrath_header::ServerCrypto>(&mut rep, k, s, msgs, true),
            }
        }
    } else if args.len() >= 5 && args[0] == "ioeq" {
        let kb = unhex(&args[2]);
        let mut k = [0u8; 40];
        k.copy_from_slice(&kb[..40]);
        let s: u64 = args[3].parse().unwrap_or(0);
        let st: usize = args[4].parse().unwrap_or(60);
        match args[1].as_str() {
            "vanilla" => io_equivalence::<vanilla_header::HeaderCrypto>(&mut rep, k, s, st),
            "tbc" => io_equivalence::<tbc_header::HeaderCrypto>(&mut rep, k, s, st),
            "wrath_client" => io_equivalence::<wrath_header::ClientCrypto>(&mut rep, k, s, st),
            _ => io_equivalence::<wrath_header::ServerCrypto>(&mut rep, k, s, st),
        }
    } else if args.len() >= 4 && args[0] == "twostep" {
        let kb = unhex(&args[1]);
        let mut k = [0u8; 40];
        k.copy_from_slice(&kb[..40]);
        wrath_two_step(&mut rep, k, args[2].parse().unwrap_or(0), args[3].parse().unwrap_or(40));
    } else if args.len() >= 2 && args[0] == "unsplit" {
        let kb = unhex(&args[1]);
        // re-derive: the sweep is keyed by the RNG; rerun a sweep on this key by seeding with its bytes
        let mut rng = Rng::new(u64::from_le_bytes(kb[..8].try_into().unwrap()), 1);
        unsplit_pairs(&mut rep, &mut rng);
    }
    rep
}
