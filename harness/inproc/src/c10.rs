//! C10 — Wrath server headers of both lengths round-trip and keep the stream in step.
use crate::objs;
use crate::util::*;
use crate::faultio::{Fail, FragReader, FragWriter};
use wow_srp::wrath_header::{ClientCrypto, ServerCrypto, WrathServerAttempt};

pub fn layout(size: u32, opcode: u16) -> Vec<u8> {
    let op = opcode.to_le_bytes();
    if size > 0x7FFF {
        vec![((size >> 16) as u8) | 0x80, (size >> 8) as u8, size as u8, op[0], op[1]]
    } else {
        vec![(size >> 8) as u8, size as u8, op[0], op[1]]
    }
}

pub struct Conn {
    pub k: [u8; 40],
    pub client: ClientCrypto,
    pub server: ServerCrypto,
    pub model: ModelRc4,
    pub sent: u64,
}

impl Conn {
    pub fn new(k: [u8; 40]) -> Self {
        let (client, server) = objs::wrath_pair(k);
        Self { k, client, server, model: wrath_model(&WRATH_R, &k), sent: 0 }
    }
}

/// Drive one header through the connection. route bits: 0 = encrypt via returned slice / 1 = via writer;
/// path: 0 = read-based client call, 1 = attempt + one more byte, 2 = read-based call that fails before the fifth byte, byte supplied later.
pub fn one_header(rep: &mut Rep, c: &mut Conn, size: u32, opcode: u16, via_writer: bool, path: u8) -> bool {
    let (k0, sent0) = (c.k, c.sent);
    let replay = move || format!("hdr {} {} {} {} {} {}", hex(&k0), sent0, size, opcode, via_writer as u8, path);
    let lclass = if size > 0x7FFF { "long" } else { "short" };
    let wire: Vec<u8> = match guard(|| {
        if via_writer && c.sent % 4 != 0 {
            // a sink that takes the header in short writes that change from header to header (a socket buffer may fill
            // anywhere inside a header), now and then interrupted
            let cuts = (c.sent as u32).wrapping_mul(0x85EB_CA6B) >> 27;
            let mut w = FragWriter::new(5, cuts, (c.sent & 16) != 0, Fail::None);
            c.server.write_encrypted_server_header(&mut w, size, opcode).map(|_| w.sink)
        } else if via_writer {
            let mut v = Vec::new();
            c.server.write_encrypted_server_header(&mut v, size, opcode).map(|_| v)
        } else {
            Ok(c.server.encrypt_server_header(size, opcode).to_vec())
        }
    }) {
        Ok(Ok(v)) => v,
        Ok(Err(e)) => {
            if c.sent % 4 != 0 {
                // an error for a sink that merely takes short writes: C11 owns that verdict; this connection is abandoned
                rep.count("info_write_wrapper_error_for_short_writes_connection_abandoned", 1);
                return false;
            }
            rep.violation("c10:write_error_on_vec", format!("writing a header into a Vec failed: {}", e), replay());
            return false;
        }
        Err(e) => {
            rep.violation(&format!("c10:panic:encrypt:{}", lclass), format!("encrypting size={:#x} opcode={:#x} panicked: {}", size, opcode, e), replay());
            return false;
        }
    };
    c.sent += 1;
    let want_len = if size > 0x7FFF { 5 } else { 4 };
    if wire.len() != want_len {
        rep.violation(
            &format!("c10:emitted_length:{}", lclass),
            format!("size {:#x}: {} bytes emitted, expected {}", size, wire.len(), want_len),
            replay(),
        );
        return false;
    }
    let mut plain = wire.clone();
    c.model.xor(&mut plain);
    let want = layout(size, opcode);
    if plain != want {
        rep.violation(
            &format!("c10:wire_layout:{}", lclass),
            format!("size {:#x} opcode {:#x}: wire decrypts (model keystream) to {}, expected {}", size, opcode, hex(&plain), hex(&want)),
            replay(),
        );
        return false;
    }
    // client side
    let got = guard(|| {
        if path == 0 {
            let mut buf = wire.clone();
            buf.extend_from_slice(&[0xEE, 0xEE, 0xEE]);
            // the reader delivers the bytes in fragments that change from header to header (a socket or a BufReader
            // refill boundary may fall anywhere inside a header)
            let cuts = (c.sent as u32).wrapping_mul(0x9E37_79B9) >> 27;
            let n = buf.len();
            let mut rd = FragReader::new(&buf, n, cuts, (c.sent & 8) != 0, Fail::None);
            if c.sent % 512 == 8 {
                // now and then a storm of interruptions before every fragment (read_exact retries without limit)
                rd.storm = [300u32, 65, 257, 5000][(c.sent / 512 % 4) as usize];
            }
            let h = c.client.read_and_decrypt_server_header(&mut rd);
            (h.map(|h| (h.size, h.opcode)).map_err(|e| e.to_string()), rd.pos)
        } else if path == 2 && wire.len() == 5 {
            // the read-based call loses the connection for a moment exactly before the fifth byte (a non-blocking or timed-out
            // socket); the caller completes the header with the byte once it has arrived; the connection then goes on
            let kind = if c.sent & 1 == 0 { std::io::ErrorKind::WouldBlock } else { std::io::ErrorKind::TimedOut };
            let mut rd = FragReader::new(&wire, 4, (c.sent as u32) & 7, false, Fail::Kind(kind));
            match c.client.read_and_decrypt_server_header(&mut rd) {
                Ok(h) => (Err(format!("the reader failed before the fifth byte but the call returned Ok(size={:#x})", h.size)), rd.pos),
                Err(_) => {
                    let h = c.client.decrypt_large_server_header(wire[4]);
                    (Ok((h.size, h.opcode)), rd.pos + 1)
                }
            }
        } else if path == 2 {
            let mut rd = FragReader::new(&wire, 4, (c.sent as u32) & 7, false, Fail::Eof);
            let h = c.client.read_and_decrypt_server_header(&mut rd);
            (h.map(|h| (h.size, h.opcode)).map_err(|e| e.to_string()), rd.pos)
        } else {
            let first = [wire[0], wire[1], wire[2], wire[3]];
            match c.client.attempt_decrypt_server_header(first) {
                WrathServerAttempt::Header(h) => (Ok((h.size, h.opcode)), 4usize),
                WrathServerAttempt::AdditionalByteRequired => {
                    if wire.len() < 5 {
                        (Err("client asks for a fifth byte of a 4-byte header".to_string()), 4)
                    } else {
                        let h = c.client.decrypt_large_server_header(wire[4]);
                        (Ok((h.size, h.opcode)), 5)
                    }
                }
            }
        }
    });
    let pname = match path {
        0 => "read",
        2 => "read_fifth_byte_late",
        _ => "attempt",
    };
    match got {
        Err(e) => {
            rep.violation(&format!("c10:panic:decode:{}:{}", pname, lclass), format!("decoding panicked: {}", e), replay());
            false
        }
        Ok((Err(e), _)) => {
            rep.violation(&format!("c10:decode_error:{}:{}", pname, lclass), format!("size {:#x}: {}", size, e), replay());
            false
        }
        Ok((Ok((s, o)), consumed)) => {
            if (s, o) != (size, opcode) {
                rep.violation(
                    &format!("c10:decoded_value:{}:{}", pname, lclass),
                    format!("sent size={:#x} opcode={:#x}, client ({} path) decoded size={:#x} opcode={:#x}", size, opcode, pname, s, o),
                    replay(),
                );
                return false;
            }
            if consumed != want_len {
                rep.violation(
                    &format!("c10:consumed_bytes:{}:{}", pname, lclass),
                    format!("size {:#x}: client consumed {} bytes of a {}-byte header", size, consumed, want_len),
                    replay(),
                );
                return false;
            }
            true
        }
    }
}

/// Two connections decode one header each through the two-step path, the steps interleaved on one thread.
pub fn interleaved_pair(rep: &mut Rep, a: &mut Conn, b: &mut Conn, ha: (u32, u16), hb: (u32, u16)) -> bool {
    let replay = format!("pair {} {}", hex(&a.k), hex(&b.k));
    let mut wa = layout(ha.0, ha.1);
    let mut wb = layout(hb.0, hb.1);
    // the servers send (checked against the model elsewhere; here the model produces the wire bytes)
    let ea = a.server.encrypt_server_header(ha.0, ha.1).to_vec();
    let eb = b.server.encrypt_server_header(hb.0, hb.1).to_vec();
    a.model.xor(&mut wa);
    b.model.xor(&mut wb);
    a.sent += 1;
    b.sent += 1;
    if ea != wa || eb != wb {
        rep.violation("c10:wire_layout:interleaved", "server header bytes differ from the model on one of two interleaved connections".into(), replay);
        return false;
    }
    let r = guard(|| {
        let ra = a.client.attempt_decrypt_server_header([wa[0], wa[1], wa[2], wa[3]]);
        let rb = b.client.attempt_decrypt_server_header([wb[0], wb[1], wb[2], wb[3]]);
        let fa = match ra {
            WrathServerAttempt::Header(h) => (h.size, h.opcode),
            WrathServerAttempt::AdditionalByteRequired => {
                let h = a.client.decrypt_large_server_header(*wa.get(4).unwrap_or(&0));
                (h.size, h.opcode)
            }
        };
        let fb = match rb {
            WrathServerAttempt::Header(h) => (h.size, h.opcode),
            WrathServerAttempt::AdditionalByteRequired => {
                let h = b.client.decrypt_large_server_header(*wb.get(4).unwrap_or(&0));
                (h.size, h.opcode)
            }
        };
        (fa, fb)
    });
    match r {
        Err(e) => {
            rep.violation("c10:panic:decode:interleaved", e, replay);
            false
        }
        Ok((fa, fb)) => {
            if fa != ha || fb != hb {
                rep.violation(
                    "c10:decoded_value:interleaved_connections",
                    format!("two connections on one thread, steps interleaved: A decoded {:x?} (sent {:x?}), B decoded {:x?} (sent {:x?})", fa, ha, fb, hb),
                    replay,
                );
                return false;
            }
            true
        }
    }
}

const BOUNDARY: [u32; 11] = [0, 1, 0x7FFE, 0x7FFF, 0x8000, 0x8001, 0xFFFF, 0x10000, 0x3FFFFF, 0x400000, 0x7FFFFF];
const OPS: [u16; 7] = [0, 1, 0xFF, 0x100, 0x7FFF, 0x8000, 0xFFFF];

pub fn run(tier: &str, seed: u64) -> Rep {
    let mut total = Rep::new();
    total.rule = "headers sent by a real ServerCrypto and decoded by a real ClientCrypto on one connection (both obtained via ProofSeed); per \
header: emitted length (4 iff size<=0x7FFF else 5), plaintext layout via the model keystream, decoded (size, opcode), bytes consumed; \
encode route (slice/writer) and decode path (read-based / attempt+byte) vary per header; long mixed sequences. distinct = distinct \
(size, opcode) pairs driven (each is one input of the quantifier) counted per workload part"
        .to_string();
    let shards = if tier == "miri" { 1usize } else { 64usize };
    let full = tier == "thorough";
    let r = par(shards, threads(), |sh| {
        let mut rep = Rep::new();
        let mut rng = Rng::new(seed, 0x1000 + sh as u64);
        let mut conn = Conn::new(rng.arr());
        let mut alive = true;
        let mut step = |rep: &mut Rep, conn: &mut Conn, rng: &mut Rng, size: u32, op: u16| -> bool {
            let ok = one_header(rep, conn, size, op, rng.chance(1, 2), [0u8, 1, 0, 1, 2][rng.below(5) as usize]);
            rep.ev(1);
            ok
        };
        // 1. sizes: all 2^23 (thorough) or structured subset (quick), crossed with the opcode list
        if full {
            let lo = (sh as u32) << 17;
            for i in 0..(1u32 << 17) {
                // visit sizes in a scrambled order so that short and long headers mix on the connection
                let size = (lo + i).wrapping_mul(0x2545F5).wrapping_add(0x1234) & 0x7FFFFF;
                for op in OPS {
                    if alive {
                        alive = step(&mut rep, &mut conn, &mut rng, size, op);
                    }
                }
                // 57 more opcodes per size: every value of the low byte and of the high byte occurs for every size class
                for j in 0..57u32 {
                    if alive {
                        let op = (((i.wrapping_mul(57) + j) & 0xFF) as u16) | ((((i >> 3).wrapping_add(j * 5)) & 0xFF) as u16) << 8;
                        alive = step(&mut rep, &mut conn, &mut rng, size, op);
                    }
                }
            }
            rep.distinct_extra += (1u64 << 17) * (OPS.len() as u64 + 57);
            rep.count("sizes_enumerated", 1 << 17);
        } else if tier == "quick" {
            // every size 0..=0x7FFFFF once, with a varying opcode, in scrambled order
            let lo = (sh as u32) << 17;
            for i in 0..(1u32 << 17) {
                let size = (lo + i).wrapping_mul(0x2545F5).wrapping_add(0x1234) & 0x7FFFFF;
                for j in 0..4u32 {
                    if alive {
                        let op = OPS[((i + j) % 7) as usize] ^ (((i >> 3) as u16 & 0x0F0F).rotate_left(j * 3));
                        alive = step(&mut rep, &mut conn, &mut rng, size, op);
                    }
                }
            }
            rep.distinct_extra += 4u64 << 17;
            rep.count("sizes_enumerated", 1 << 17);
            let mut sizes: Vec<u32> = Vec::new();
            for b in BOUNDARY {
                for d in -2i64..=2 {
                    let s = b as i64 + d;
                    if (0..=0x7FFFFF).contains(&s) {
                        sizes.push(s as u32);
                    }
                }
            }
            for bit in 0..23 {
                sizes.push(1 << bit);
                sizes.push((1 << bit) - 1);
                sizes.push(0x7FFFFF ^ (1 << bit));
            }
            for (i, s) in sizes.iter().enumerate() {
                {
                    let _ = i;
                    for op in OPS {
                        if alive {
                            alive = step(&mut rep, &mut conn, &mut rng, *s, op);
                        }
                    }
                }
            }
            rep.distinct_extra += if sh == 0 { (sizes.len() * OPS.len()) as u64 } else { 0 };
            // a contiguous window of sizes around the threshold, per shard a different window
            let base = 0x7FFFu32.saturating_sub(2048) + (sh as u32) * 64;
            for s in base..base + 64 {
                if alive {
                    let op = rng.next() as u16;
                    alive = step(&mut rep, &mut conn, &mut rng, s, op);
                }
            }
            rep.distinct_extra += 64;
        }
        // 2. all 2^16 opcodes x boundary sizes (sharded over opcodes)
        let op_lo = (sh * 1024) as u32;
        let op_stride = if tier == "miri" { 4096 } else { 1 };
        let mut op = op_lo;
        while op < op_lo + 1024 {
            for b in BOUNDARY {
                if alive {
                    alive = step(&mut rep, &mut conn, &mut rng, b, op as u16);
                }
            }
            rep.distinct_extra += BOUNDARY.len() as u64;
            op += op_stride;
        }
        // 2b. two connections on this thread whose two-step decodes interleave (attempt A, attempt B, fifth byte A, fifth byte B),
        //     the second one keyed with a permutation of the first key
        if tier != "miri" {
            let ka: [u8; 40] = rng.arr();
            let variants = crate::streams::permuted_keys(&ka, &mut rng);
            for kb in variants.into_iter().take(3) {
                let mut ca = Conn::new(ka);
                let mut cb = Conn::new(kb);
                for _ in 0..24 {
                    let sa = 0x8000 + rng.below(0x7F8000) as u32;
                    let sb = if rng.chance(1, 3) { rng.below(0x8000) as u32 } else { 0x8000 + rng.below(0x7F8000) as u32 };
                    let (oa, ob) = (rng.next() as u16, rng.next() as u16);
                    if !interleaved_pair(&mut rep, &mut ca, &mut cb, (sa, oa), (sb, ob)) {
                        break;
                    }
                    rep.ev(2);
                }
                rep.count("interleaved_connection_pairs", 1);
            }
        }
        // 3. random headers, fresh connections with sequences of 1..200 headers
        let nrand: u64 = match tier {
            "quick" => 8_000_000 / shards as u64,
            "thorough" => 20_000_000 / shards as u64,
            _ => 40,
        };
        let mut left = nrand;
        while left > 0 {
            let mut c2 = Conn::new(rng.arr());
            let n = (1 + rng.below(200)).min(left);
            for _ in 0..n {
                let size = match rng.below(4) {
                    0 => rng.below(0x8000) as u32,
                    1 => 0x8000 + rng.below(0x7F8000) as u32,
                    2 => *rng.pick(&BOUNDARY),
                    _ => rng.below(0x800000) as u32,
                };
                let op = rng.next() as u16;
                if !step(&mut rep, &mut c2, &mut rng, size, op) {
                    break;
                }
                rep.hist("random_headers", if size > 0x7FFF { "long" } else { "short" }, 1);
            }
            rep.count("fresh_connections", 1);
            left -= n;
        }
        rep.distinct_extra += nrand; // random (size, opcode) pairs: collisions are negligible vs 2^39
        if sh == 0 {
            rep.sample("size=0x7fff opcode=0x1ee -> 4 bytes; size=0x8000 opcode=0x1ee -> 5 bytes, first plaintext byte 0x80".to_string());
        }
        rep
    });
    total.merge(r);
    if full {
        total.exhaustive = Some(true);
        total.note("all 2^23 sizes x 7 opcodes and all 2^16 opcodes x 11 boundary sizes were driven".to_string());
    }
    total
}

pub fn replay(args: &[String]) -> Rep {
    let mut rep = Rep::new();
    if args.len() >= 7 && args[0] == "hdr" {
        let kb = unhex(&args[1]);
        let mut k = [0u8; 40];
        k.copy_from_slice(&kb[..40]);
        let before: u64 = args[2].parse().unwrap_or(0);
        let size: u32 = args[3].parse().unwrap_or(0);
        let op: u16 = args[4].parse().unwrap_or(0);
        let mut c = Conn::new(k);
        let mut rng = Rng::new(before, 5);
        // put the connection into a comparable position: `before` headers already exchanged
        for _ in 0..before.min(100_000) {
            let s = rng.below(0x800000) as u32;
            if !one_header(&mut rep, &mut c, s, rng.next() as u16, false, 0) {
                break;
            }
        }
        one_header(&mut rep, &mut c, size, op, args[5] == "1", args[6].parse().unwrap_or(0));
        rep.ev(1);
    }
    rep
}
