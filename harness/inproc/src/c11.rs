//! C11 — all header entry points agree; failed reads leave the cipher untouched (fault enumeration).
use crate::c10::layout as wrath_server_layout;
use crate::faultio::*;
use crate::objs;
use crate::util::*;

fn server_layout16(size: u16, op: u16) -> [u8; 4] {
    let s = size.to_be_bytes();
    let o = op.to_le_bytes();
    [s[0], s[1], o[0], o[1]]
}
fn client_layout(size: u16, op: u32) -> [u8; 6] {
    let s = size.to_be_bytes();
    let o = op.to_le_bytes();
    [s[0], s[1], o[0], o[1], o[2], o[3]]
}

/// cuts to enumerate for a prefix of `n` delivered bytes: all 2^(n-1) fragmentations
/// How many consecutive interruptions precede every byte: 1 as a rule; for the finest fragmentation of every fourth sample a
/// storm (a caller blocked in read() under a timer signal without SA_RESTART sees arbitrarily many; read_exact / write_all
/// retry without limit).
fn storm_for(sample: u64, cuts: u32, ncuts: u32) -> u32 {
    if cuts + 1 != ncuts || sample % 4 != 0 {
        return 1;
    }
    let s = [64u32, 65, 255, 256, 257, 1000, 70_000, 300][(sample / 4 % 8) as usize];
    if cfg!(miri) && s > 300 {
        300
    } else {
        s
    }
}

fn all_cuts(n: usize) -> u32 {
    if n <= 1 {
        1
    } else {
        1 << (n - 1)
    }
}

struct Ctx<'a> {
    rep: &'a mut Rep,
    tag: &'static str,
    k: [u8; 40],
    sample: u64,
    seed: u64,
}

impl Ctx<'_> {
    fn viol(&mut self, sig: &str, what: String) {
        let replay = format!("sample {} {} {} {}", self.tag, hex(&self.k), self.sample, self.seed);
        self.rep.violation(&format!("c11:{}:{}", self.tag, sig), what, replay);
    }
}

// ---------------------------------------------------------------------------
// Vanilla and TBC share one API shape; the monitor body is instantiated per module.

macro_rules! add_expansion {
    ($fname:ident, $m:ident, $pair:path, $keyfn:expr, $tag:expr, $has_unsplit:expr) => {
        pub fn $fname(rep: &mut Rep, rng: &mut Rng, sample: u64, faults_full: bool, seed: u64) {
            use wow_srp::$m::{DecrypterHalf, EncrypterHalf, HeaderCrypto};
            let k: [u8; 40] = rng.arr();
            let mkey: Vec<u8> = $keyfn(&k);
            let mut cx = Ctx { rep, tag: $tag, k, sample, seed };
            let (mut base, _peer) = match guard(|| $pair(k)) {
                Ok(p) => p,
                Err(e) => {
                    cx.viol("panic:construct", e);
                    return;
                }
            };
            let mut m_enc = ModelAdd::new(&mkey);
            let mut m_dec = ModelAdd::new(&mkey);
            // position in a longer conversation: the object has already processed some headers
            let pre = match rng.below(4) {
                0 => 0,
                1 => rng.below(10),
                2 => rng.below(100),
                _ => rng.below(1000),
            };
            let pre = if faults_full { pre } else { pre % 7 };
            for _ in 0..pre {
                let dl = if rng.chance(1, 2) { 4 } else { 6 };
                let mut d = rng.bytes(dl);
                let mut w = d.clone();
                m_enc.enc(&mut w);
                base.encrypt(&mut d);
                if d != w {
                    cx.viol("preroll_encrypt", "raw encrypt differs from the model during pre-roll (C07/C08's business)".into());
                    return;
                }
                let mut c = rng.bytes(6);
                let mut p = c.clone();
                m_dec.dec(&mut p);
                base.decrypt(&mut c);
                if c != p {
                    cx.viol("preroll_decrypt", "raw decrypt differs from the model during pre-roll".into());
                    return;
                }
            }
            cx.rep.hist("preroll_headers", if pre == 0 { "0" } else if pre < 10 { "1-9" } else if pre < 100 { "10-99" } else { "100-999" }, 1);

            #[derive(Clone)]
            enum St {
                Whole(HeaderCrypto),
                Halves(EncrypterHalf, DecrypterHalf),
            }
            // ---------------- (A) encrypt side: nine routes + a mixed connection
            let nh = 1 + rng.below(5) as usize;
            let hdrs: Vec<(bool, u16, u32)> = (0..nh)
                .map(|_| {
                    let size = match rng.below(4) {
                        0 => *rng.pick(&[0u16, 1, 0xFF, 0x100, 0x7FFF, 0x8000, 0xFFFF]),
                        _ => rng.next() as u16,
                    };
                    let op = match rng.below(4) {
                        0 => *rng.pick(&[0u32, 1, 0xFF, 0x100, 0xFFFF, 0x10000, 0xFF000000, 0xFFFFFFFF]),
                        _ => rng.next() as u32,
                    };
                    (rng.chance(1, 2), size, op)
                })
                .collect();
            // expected wire bytes
            let mut expect: Vec<Vec<u8>> = Vec::new();
            {
                let mut m = m_enc.clone();
                for (is_server, size, op) in &hdrs {
                    let mut l: Vec<u8> = if *is_server { server_layout16(*size, *op as u16).to_vec() } else { client_layout(*size, *op).to_vec() };
                    m.enc(&mut l);
                    expect.push(l);
                }
            }
            let mut m_after = m_enc.clone();
            for e in &expect {
                // advance the model by re-encrypting the layouts
                let _ = e;
            }
            for (is_server, size, op) in &hdrs {
                let mut l: Vec<u8> = if *is_server { server_layout16(*size, *op as u16).to_vec() } else { client_layout(*size, *op).to_vec() };
                m_after.enc(&mut l);
            }
            let tail_plain = rng.bytes(48);
            let mut tail_expect = tail_plain.clone();
            m_after.clone().enc(&mut tail_expect);

            let enc_route = |st: &mut St, route: u8, is_server: bool, size: u16, op: u32| -> Result<Vec<u8>, String> {
                // routes 0..2 combined, 3..5 through encrypter(), 6..8 on the split half
                if route >= 6 {
                    if let St::Whole(w) = st.clone() {
                        let (e, d) = w.split();
                        *st = St::Halves(e, d);
                    }
                }
                match st {
                    St::Whole(w) => {
                        let kind = route % 3;
                        let through_half = route >= 3;
                        if is_server {
                            let l = server_layout16(size, op as u16);
                            match (through_half, kind) {
                                (false, 0) => {
                                    let mut d = l;
                                    w.encrypt(&mut d);
                                    Ok(d.to_vec())
                                }
                                (false, 1) => Ok(w.encrypt_server_header(size, op as u16).to_vec()),
                                (false, _) => {
                                    let mut v = Vec::new();
                                    w.write_encrypted_server_header(&mut v, size, op as u16).map_err(|e| e.to_string())?;
                                    Ok(v)
                                }
                                (true, 0) => {
                                    let mut d = l;
                                    w.encrypter().encrypt(&mut d);
                                    Ok(d.to_vec())
                                }
                                (true, 1) => Ok(w.encrypter().encrypt_server_header(size, op as u16).to_vec()),
                                (true, _) => {
                                    let mut v = Vec::new();
                                    w.encrypter().write_encrypted_server_header(&mut v, size, op as u16).map_err(|e| e.to_string())?;
                                    Ok(v)
                                }
                            }
                        } else {
                            let l = client_layout(size, op);
                            match (through_half, kind) {
                                (false, 0) => {
                                    let mut d = l;
                                    w.encrypt(&mut d);
                                    Ok(d.to_vec())
                                }
                                (false, 1) => Ok(w.encrypt_client_header(size, op).to_vec()),
                                (false, _) => {
                                    let mut v = Vec::new();
                                    w.write_encrypted_client_header(&mut v, size, op).map_err(|e| e.to_string())?;
                                    Ok(v)
                                }
                                (true, 0) => {
                                    let mut d = l;
                                    w.encrypter().encrypt(&mut d);
                                    Ok(d.to_vec())
                                }
                                (true, 1) => Ok(w.encrypter().encrypt_client_header(size, op).to_vec()),
                                (true, _) => {
                                    let mut v = Vec::new();
                                    w.encrypter().write_encrypted_client_header(&mut v, size, op).map_err(|e| e.to_string())?;
                                    Ok(v)
                                }
                            }
                        }
                    }
                    St::Halves(e, _) => {
                        let kind = route % 3;
                        if is_server {
                            match kind {
                                0 => {
                                    let mut d = server_layout16(size, op as u16);
                                    e.encrypt(&mut d);
                                    Ok(d.to_vec())
                                }
                                1 => Ok(e.encrypt_server_header(size, op as u16).to_vec()),
                                _ => {
                                    let mut v = Vec::new();
                                    e.write_encrypted_server_header(&mut v, size, op as u16).map_err(|e| e.to_string())?;
                                    Ok(v)
                                }
                            }
                        } else {
                            match kind {
                                0 => {
                                    let mut d = client_layout(size, op);
                                    e.encrypt(&mut d);
                                    Ok(d.to_vec())
                                }
                                1 => Ok(e.encrypt_client_header(size, op).to_vec()),
                                _ => {
                                    let mut v = Vec::new();
                                    e.write_encrypted_client_header(&mut v, size, op).map_err(|e| e.to_string())?;
                                    Ok(v)
                                }
                            }
                        }
                    }
                }
            };
            let enc_tail = |st: &mut St, d: &mut [u8]| match st {
                St::Whole(w) => w.encrypt(d),
                St::Halves(e, _) => e.encrypt(d),
            };
            let mut wholes_after: Vec<HeaderCrypto> = Vec::new();
            for route in 0..10u8 {
                let mut st = St::Whole(base.clone());
                let mut ok = true;
                for (i, (is_server, size, op)) in hdrs.iter().enumerate() {
                    let r = if route == 9 { rng.below(9) as u8 } else { route };
                    // a mixed connection may not go back from halves to whole here; fine
                    let got = guard(|| enc_route(&mut st, r, *is_server, *size, *op));
                    cx.rep.ev(1);
                    match got {
                        Err(e) => {
                            cx.viol(&format!("panic:encrypt_route{}", r), e);
                            ok = false;
                        }
                        Ok(Err(e)) => {
                            cx.viol(&format!("write_to_vec_failed:route{}", r), e);
                            ok = false;
                        }
                        Ok(Ok(bytes)) => {
                            if bytes != expect[i] {
                                cx.viol(
                                    &format!("encrypt_route_differs:{}:route{}", if *is_server { "server_header" } else { "client_header" }, r),
                                    format!("route {} gave {} for size={:#x} opcode={:#x}; the raw operation on the wire layout gives {}", r, hex(&bytes), size, op, hex(&expect[i])),
                                );
                                ok = false;
                            }
                        }
                    }
                    cx.rep.cell(&[1, r as u64, *is_server as u64]);
                    if !ok {
                        break;
                    }
                }
                if ok {
                    let mut t = tail_plain.clone();
                    enc_tail(&mut st, &mut t);
                    if t != tail_expect {
                        cx.viol(&format!("state_after_encrypt_route{}", route), "the cipher state after the route differs from the state after the raw operation (next 48 bytes differ)".into());
                    }
                    if let St::Whole(w) = st {
                        wholes_after.push(w);
                    }
                }
            }
            cx.rep.count("encrypt_route_connections", 10);

            // ---------------- (B) decrypt side
            let mut wires: Vec<Vec<u8>> = Vec::new();
            let mut m_d_after = m_dec.clone();
            {
                // the peer's ciphertext: model-encrypt the layouts with the peer-side stream (same key)
                let mut m = ModelAdd::new(&mkey);
                m.pos = m_dec.pos;
                m.prev = m_dec.prev;
                for (is_server, size, op) in &hdrs {
                    let mut l: Vec<u8> = if *is_server { server_layout16(*size, *op as u16).to_vec() } else { client_layout(*size, *op).to_vec() };
                    m.enc(&mut l);
                    let mut chk = l.clone();
                    m_d_after.dec(&mut chk);
                    wires.push(l);
                }
            }
            let tail_wire = rng.bytes(48);
            let mut tail_dec_expect = tail_wire.clone();
            m_d_after.clone().dec(&mut tail_dec_expect);
            let dec_route = |st: &mut St, route: u8, is_server: bool, wire: &[u8]| -> Result<(u16, u32), String> {
                if route >= 6 {
                    if let St::Whole(w) = st.clone() {
                        let (e, d) = w.split();
                        *st = St::Halves(e, d);
                    }
                }
                let kind = route % 3;
                let parse = |d: &[u8]| -> (u16, u32) {
                    if is_server {
                        (u16::from_be_bytes([d[0], d[1]]), u16::from_le_bytes([d[2], d[3]]) as u32)
                    } else {
                        (u16::from_be_bytes([d[0], d[1]]), u32::from_le_bytes([d[2], d[3], d[4], d[5]]))
                    }
                };
                match st {
                    St::Whole(w) => {
                        let through_half = route >= 3;
                        match (through_half, kind, is_server) {
                            (false, 0, _) => {
                                let mut d = wire.to_vec();
                                w.decrypt(&mut d);
                                Ok(parse(&d))
                            }
                            (false, 1, true) => {
                                let h = w.decrypt_server_header([wire[0], wire[1], wire[2], wire[3]]);
                                Ok((h.size, h.opcode as u32))
                            }
                            (false, 1, false) => {
                                let h = w.decrypt_client_header([wire[0], wire[1], wire[2], wire[3], wire[4], wire[5]]);
                                Ok((h.size, h.opcode))
                            }
                            (false, _, true) => w.read_and_decrypt_server_header(&mut &wire[..]).map(|h| (h.size, h.opcode as u32)).map_err(|e| e.to_string()),
                            (false, _, false) => w.read_and_decrypt_client_header(&mut &wire[..]).map(|h| (h.size, h.opcode)).map_err(|e| e.to_string()),
                            (true, 0, _) => {
                                let mut d = wire.to_vec();
                                w.decrypter().decrypt(&mut d);
                                Ok(parse(&d))
                            }
                            (true, 1, true) => {
                                let h = w.decrypter().decrypt_server_header([wire[0], wire[1], wire[2], wire[3]]);
                                Ok((h.size, h.opcode as u32))
                            }
                            (true, 1, false) => {
                                let h = w.decrypter().decrypt_client_header([wire[0], wire[1], wire[2], wire[3], wire[4], wire[5]]);
                                Ok((h.size, h.opcode))
                            }
                            (true, _, true) => w.decrypter().read_and_decrypt_server_header(&mut &wire[..]).map(|h| (h.size, h.opcode as u32)).map_err(|e| e.to_string()),
                            (true, _, false) => w.decrypter().read_and_decrypt_client_header(&mut &wire[..]).map(|h| (h.size, h.opcode)).map_err(|e| e.to_string()),
                        }
                    }
                    St::Halves(_, d) => match (kind, is_server) {
                        (0, _) => {
                            let mut x = wire.to_vec();
                            d.decrypt(&mut x);
                            Ok(parse(&x))
                        }
                        (1, true) => {
                            let h = d.decrypt_server_header([wire[0], wire[1], wire[2], wire[3]]);
                            Ok((h.size, h.opcode as u32))
                        }
                        (1, false) => {
                            let h = d.decrypt_client_header([wire[0], wire[1], wire[2], wire[3], wire[4], wire[5]]);
                            Ok((h.size, h.opcode))
                        }
                        (_, true) => d.read_and_decrypt_server_header(&mut &wire[..]).map(|h| (h.size, h.opcode as u32)).map_err(|e| e.to_string()),
                        (_, false) => d.read_and_decrypt_client_header(&mut &wire[..]).map(|h| (h.size, h.opcode)).map_err(|e| e.to_string()),
                    },
                }
            };
            let dec_tail = |st: &mut St, d: &mut [u8]| match st {
                St::Whole(w) => w.decrypt(d),
                St::Halves(_, x) => x.decrypt(d),
            };
            for route in 0..10u8 {
                let mut st = St::Whole(base.clone());
                let mut ok = true;
                for (i, (is_server, size, op)) in hdrs.iter().enumerate() {
                    let r = if route == 9 { rng.below(9) as u8 } else { route };
                    let got = guard(|| dec_route(&mut st, r, *is_server, &wires[i]));
                    cx.rep.ev(1);
                    let want = (*size, if *is_server { *op as u16 as u32 } else { *op });
                    match got {
                        Err(e) => {
                            cx.viol(&format!("panic:decrypt_route{}", r), e);
                            ok = false;
                        }
                        Ok(Err(e)) => {
                            cx.viol(&format!("read_from_slice_failed:route{}", r), e);
                            ok = false;
                        }
                        Ok(Ok(h)) => {
                            if h != want {
                                cx.viol(
                                    &format!("decrypt_route_differs:{}:route{}", if *is_server { "server_header" } else { "client_header" }, r),
                                    format!("route {} decoded size={:#x} opcode={:#x}; sent size={:#x} opcode={:#x}", r, h.0, h.1, want.0, want.1),
                                );
                                ok = false;
                            }
                        }
                    }
                    cx.rep.cell(&[2, r as u64, *is_server as u64]);
                    if !ok {
                        break;
                    }
                }
                if ok {
                    let mut t = tail_wire.clone();
                    dec_tail(&mut st, &mut t);
                    if t != tail_dec_expect {
                        cx.viol(&format!("state_after_decrypt_route{}", route), "the cipher state after the route differs from the state after the raw operation (next 48 bytes differ)".into());
                    }
                    if let St::Whole(mut w) = st {
                        // objects that took different routes are == afterwards (informational unless behaviour differs)
                        let _ = &mut w;
                    }
                }
            }
            cx.rep.count("decrypt_route_connections", 10);
            // Vanilla: split then unsplit returns an object that continues both directions
            if $has_unsplit {
                // handled in C12 (unsplit); nothing here
            }

            // ---------------- (C)+(D) readers: fragmentation, interruption, failure at every offset
            for is_server in [true, false] {
                let len = if is_server { 4usize } else { 6 };
                let size = rng.next() as u16;
                let op = if is_server { rng.next() as u16 as u32 } else { rng.next() as u32 };
                let mut wire: Vec<u8> = if is_server { server_layout16(size, op as u16).to_vec() } else { client_layout(size, op).to_vec() };
                {
                    let mut m = ModelAdd::new(&mkey);
                    m.pos = m_dec.pos;
                    m.prev = m_dec.prev;
                    m.enc(&mut wire);
                }
                let mut m_next = m_dec.clone();
                {
                    let mut t = wire.clone();
                    m_next.dec(&mut t);
                }
                let next_wire = rng.bytes(16);
                let mut next_expect = next_wire.clone();
                m_next.clone().dec(&mut next_expect);
                let via_half = rng.chance(1, 2);
                let snapshot = base.clone();
                let read_it = |obj: &mut HeaderCrypto, r: &mut FragReader| -> std::io::Result<(u16, u32)> {
                    if is_server {
                        if via_half {
                            obj.decrypter().read_and_decrypt_server_header(r).map(|h| (h.size, h.opcode as u32))
                        } else {
                            obj.read_and_decrypt_server_header(r).map(|h| (h.size, h.opcode as u32))
                        }
                    } else if via_half {
                        obj.decrypter().read_and_decrypt_client_header(r).map(|h| (h.size, h.opcode))
                    } else {
                        obj.read_and_decrypt_client_header(r).map(|h| (h.size, h.opcode))
                    }
                };
                let hk = if is_server { "server4" } else { "client6" };
                // (C) every fragmentation, with and without interruptions
                for cuts in 0..all_cuts(len) {
                    for interrupt in [false, true] {
                        let mut obj = snapshot.clone();
                        let mut rd = FragReader::new(&wire, len, cuts, interrupt, Fail::None);
                        rd.storm = storm_for(cx.sample, cuts, all_cuts(len));
                        if rd.storm > 1 && interrupt {
                            cx.rep.count("interruption_storms_64_to_70000_before_every_byte", 1);
                        }
                        cx.rep.ev(1);
                        match guard(|| read_it(&mut obj, &mut rd)) {
                            Err(e) => cx.viol(&format!("panic:fragmented_read:{}", hk), e),
                            Ok(Err(e)) => cx.viol(
                                &format!("fragmented_read_fails:{}:{}", hk, if interrupt { "interrupted" } else { "fragments" }),
                                format!("a reader delivering the header in fragments (cuts {:#b}, interruptions {}, {} in a row) made the call fail: {}", cuts, interrupt, storm_for(cx.sample, cuts, all_cuts(len)), e),
                            ),
                            Ok(Ok(h)) => {
                                if h != (size, op) {
                                    cx.viol(&format!("fragmented_read_value:{}", hk), format!("cuts {:#b}: decoded {:?}, sent {:?}", cuts, h, (size, op)));
                                } else {
                                    let mut t = next_wire.clone();
                                    obj.decrypt(&mut t);
                                    if t != next_expect {
                                        cx.viol(&format!("fragmented_read_state:{}", hk), format!("cuts {:#b} interruptions {}: the stream is out of step after the read", cuts, interrupt));
                                    }
                                }
                            }
                        }
                        cx.rep.count("fragmentations_enumerated", 1);
                        cx.rep.cell(&[3, len as u64, cuts as u64, interrupt as u64]);
                    }
                }
                // (D) failure at every offset, every kind, every fragmentation of the delivered prefix
                for off in 0..len {
                    for (fi, fk) in FAIL_KINDS.iter().enumerate() {
                        let ncuts = if faults_full { all_cuts(off) } else { 1.max(all_cuts(off).min(2)) };
                        for cuts in 0..ncuts {
                            for interrupt in [false, true] {
                                let mut obj = snapshot.clone();
                                let mut rd = FragReader::new(&wire, off, cuts, interrupt, *fk);
                                cx.rep.ev(1);
                                cx.rep.count("fault_points_enumerated", 1);
                                cx.rep.cell(&[4, len as u64, off as u64, fi as u64, cuts as u64, interrupt as u64]);
                                match guard(|| read_it(&mut obj, &mut rd)) {
                                    Err(e) => cx.viol(&format!("panic:failing_read:{}", hk), e),
                                    Ok(Ok(h)) => cx.viol(
                                        &format!("failing_read_returns_ok:{}:off{}", hk, off),
                                        format!("reader failed ({:?}) after {} of {} bytes but the call returned Ok({:?})", fk, off, len, h),
                                    ),
                                    Ok(Err(_e)) => {
                                        // the decrypter must be exactly as it was: feeding the real header now works
                                        let untouched = obj == snapshot;
                                        let mut probe = obj.clone();
                                        let h = if is_server {
                                            let h = probe.decrypt_server_header([wire[0], wire[1], wire[2], wire[3]]);
                                            (h.size, h.opcode as u32)
                                        } else {
                                            let h = probe.decrypt_client_header([wire[0], wire[1], wire[2], wire[3], wire[4], wire[5]]);
                                            (h.size, h.opcode)
                                        };
                                        let mut t = next_wire.clone();
                                        probe.decrypt(&mut t);
                                        if h != (size, op) || t != next_expect {
                                            cx.viol(
                                                &format!("failed_read_consumed_keystream:{}:off{}", hk, off),
                                                format!("after a read that failed ({:?}) at byte {} of {}, the decrypter is out of step: the retransmitted header decodes as {:?} instead of {:?}", fk, off, len, h, (size, op)),
                                            );
                                        } else if !untouched {
                                            cx.rep.count("failed_read_object_not_eq_but_behaviour_same", 1);
                                        }
                                        if cx.sample == 0 && off == len - 1 && fi == 1 && cuts == ncuts - 1 && interrupt {
                                            let tag = cx.tag;
                                            cx.rep.sample(format!(
                                                "{} {} header, wire {}: reader fails with {:?} after {} of {} bytes (fragment cuts {:#b}, Interrupted before each fragment) -> Err({}); decrypter == snapshot: {}; retransmitted header decodes as size={:#x} opcode={:#x}",
                                                tag, hk, hex(&wire), fk, off, len, cuts, _e, untouched, h.0, h.1
                                            ));
                                        }
                                    }
                                }
                            }
                        }
                    }
                }
                // (E) writers
                let wsize = rng.next() as u16;
                let wop = if is_server { rng.next() as u16 as u32 } else { rng.next() as u32 };
                let mut wexpect: Vec<u8> = if is_server { server_layout16(wsize, wop as u16).to_vec() } else { client_layout(wsize, wop).to_vec() };
                m_enc.clone().enc(&mut wexpect);
                let write_it = |obj: &mut HeaderCrypto, w: &mut FragWriter| -> std::io::Result<()> {
                    if is_server {
                        if via_half {
                            obj.encrypter().write_encrypted_server_header(w, wsize, wop as u16)
                        } else {
                            obj.write_encrypted_server_header(w, wsize, wop as u16)
                        }
                    } else if via_half {
                        obj.encrypter().write_encrypted_client_header(w, wsize, wop)
                    } else {
                        obj.write_encrypted_client_header(w, wsize, wop)
                    }
                };
                for cuts in 0..all_cuts(len) {
                    for interrupt in [false, true] {
                        let mut obj = snapshot.clone();
                        let mut wr = FragWriter::new(len, cuts, interrupt, Fail::None);
                        wr.storm = storm_for(cx.sample, cuts, all_cuts(len));
                        cx.rep.ev(1);
                        cx.rep.count("short_write_patterns_enumerated", 1);
                        match guard(|| write_it(&mut obj, &mut wr)) {
                            Err(e) => cx.viol(&format!("panic:short_write:{}", hk), e),
                            Ok(Err(_e)) => {
                                // the statement only demands that writer errors are reported; an error here is reported
                                cx.rep.count("info_short_or_interrupted_write_returned_error", 1);
                            }
                            Ok(Ok(())) => {
                                if wr.sink != wexpect {
                                    cx.viol(&format!("short_write_bytes:{}", hk), format!("sink received {}, expected {}", hex(&wr.sink), hex(&wexpect)));
                                }
                            }
                        }
                        cx.rep.cell(&[5, len as u64, cuts as u64, interrupt as u64]);
                    }
                }
                for acc in 0..len {
                    for (fi, fk) in FAIL_KINDS.iter().enumerate() {
                        let ncuts = if faults_full { all_cuts(acc) } else { 1.max(all_cuts(acc).min(2)) };
                        for cuts in 0..ncuts {
                            for interrupt in [false, true] {
                                let mut obj = snapshot.clone();
                                let mut wr = FragWriter::new(acc, cuts, interrupt, *fk);
                                cx.rep.ev(1);
                                cx.rep.count("write_fault_points_enumerated", 1);
                                cx.rep.cell(&[6, len as u64, acc as u64, fi as u64, cuts as u64, interrupt as u64]);
                                match guard(|| write_it(&mut obj, &mut wr)) {
                                    Err(e) => cx.viol(&format!("panic:failing_write:{}", hk), e),
                                    Ok(Ok(())) => cx.viol(
                                        &format!("write_error_swallowed:{}:acc{}", hk, acc),
                                        format!("the writer failed ({:?}) after accepting {} of {} bytes but the call returned Ok", fk, acc, len),
                                    ),
                                    Ok(Err(_)) => {
                                        if wr.sink[..] != wexpect[..wr.sink.len().min(wexpect.len())] {
                                            cx.rep.count("failing_write_prefix_differs_info", 1);
                                        }
                                    }
                                }
                            }
                        }
                    }
                }
            }
            let _ = wholes_after;
        }
    };
}

add_expansion!(vanilla_sample, vanilla_header, objs::vanilla_pair, |k: &[u8; 40]| k.to_vec(), "vanilla", true);
add_expansion!(tbc_sample, tbc_header, objs::tbc_pair, |k: &[u8; 40]| tbc_key(k).to_vec(), "tbc", false);

// ---------------------------------------------------------------------------
// Wrath

pub fn wrath_sample(rep: &mut Rep, rng: &mut Rng, sample: u64, faults_full: bool, seed: u64) {
    use wow_srp::wrath_header::{ClientCrypto, ServerCrypto, WrathServerAttempt};
    let k: [u8; 40] = rng.arr();
    let mut cx = Ctx { rep, tag: "wrath", k, sample, seed };
    let (mut client, mut server) = match guard(|| objs::wrath_pair(k)) {
        Ok(p) => p,
        Err(e) => {
            cx.viol("panic:construct", e);
            return;
        }
    };
    let mut m_c2s = wrath_model(&WRATH_S, &k);
    let mut m_s2c = wrath_model(&WRATH_R, &k);
    // pre-roll both directions
    let pre = match rng.below(4) {
        0 => 0,
        1 => rng.below(10),
        2 => rng.below(100),
        _ => rng.below(1000),
    };
    let pre = if faults_full { pre } else { pre % 7 };
    for _ in 0..pre {
        let mut d = rng.bytes(6);
        let mut w = d.clone();
        m_c2s.xor(&mut w);
        client.encrypt(&mut d);
        let mut back = d.clone();
        server.decrypt(&mut back);
        let dl = if rng.chance(1, 2) { 4 } else { 5 };
        let mut d2 = rng.bytes(dl);
        let mut w2 = d2.clone();
        m_s2c.xor(&mut w2);
        server.encrypt(&mut d2);
        let mut back2 = d2.clone();
        client.decrypt(&mut back2);
        if d != w || d2 != w2 {
            cx.viol("preroll", "raw traffic differs from the model during pre-roll (C09's business)".into());
            return;
        }
    }
    cx.rep.hist("preroll_headers", if pre == 0 { "0" } else if pre < 10 { "1-9" } else if pre < 100 { "10-99" } else { "100-999" }, 1);

    // ===== server role, encrypt: server headers through nine routes =====
    let nh = 1 + rng.below(5) as usize;
    let shdrs: Vec<(u32, u16)> = (0..nh)
        .map(|_| {
            let size = match rng.below(4) {
                0 => *rng.pick(&[0u32, 1, 0x7FFF, 0x8000, 0xFFFF, 0x10000, 0x400000, 0x7FFFFF]),
                1 => rng.below(0x8000) as u32,
                _ => rng.below(0x800000) as u32,
            };
            (size, rng.next() as u16)
        })
        .collect();
    let mut sexpect: Vec<Vec<u8>> = Vec::new();
    let mut m_s_after = m_s2c.clone();
    for (size, op) in &shdrs {
        let mut l = wrath_server_layout(*size, *op);
        m_s_after.xor(&mut l);
        sexpect.push(l);
    }
    let tail = rng.bytes(48);
    let mut tail_s_expect = tail.clone();
    m_s_after.clone().xor(&mut tail_s_expect);
    #[derive(Clone)]
    enum SS {
        Whole(ServerCrypto),
        Halves(wow_srp::wrath_header::ServerEncrypterHalf, wow_srp::wrath_header::ServerDecrypterHalf),
    }
    #[derive(Clone)]
    enum CS {
        Whole(ClientCrypto),
        Halves(wow_srp::wrath_header::ClientEncrypterHalf, wow_srp::wrath_header::ClientDecrypterHalf),
    }
    for route in 0..10u8 {
        let mut st = SS::Whole(server.clone());
        let mut ok = true;
        for (i, (size, op)) in shdrs.iter().enumerate() {
            let r = if route == 9 { rng.below(9) as u8 } else { route };
            let got = guard(|| -> Result<Vec<u8>, String> {
                if r >= 6 {
                    if let SS::Whole(w) = st.clone() {
                        let (e, d) = w.split();
                        st = SS::Halves(e, d);
                    }
                }
                let kind = r % 3;
                match &mut st {
                    SS::Whole(w) => match (r >= 3, kind) {
                        (false, 0) => {
                            let mut d = wrath_server_layout(*size, *op);
                            w.encrypt(&mut d);
                            Ok(d)
                        }
                        (false, 1) => Ok(w.encrypt_server_header(*size, *op).to_vec()),
                        (false, _) => {
                            let mut v = Vec::new();
                            w.write_encrypted_server_header(&mut v, *size, *op).map_err(|e| e.to_string())?;
                            Ok(v)
                        }
                        (true, 0) => {
                            let mut d = wrath_server_layout(*size, *op);
                            w.encrypter().encrypt(&mut d);
                            Ok(d)
                        }
                        (true, 1) => Ok(w.encrypter().encrypt_server_header(*size, *op).to_vec()),
                        (true, _) => {
                            let mut v = Vec::new();
                            w.encrypter().write_encrypted_server_header(&mut v, *size, *op).map_err(|e| e.to_string())?;
                            Ok(v)
                        }
                    },
                    SS::Halves(e, _) => match kind {
                        0 => {
                            let mut d = wrath_server_layout(*size, *op);
                            e.encrypt(&mut d);
                            Ok(d)
                        }
                        1 => Ok(e.encrypt_server_header(*size, *op).to_vec()),
                        _ => {
                            let mut v = Vec::new();
                            e.write_encrypted_server_header(&mut v, *size, *op).map_err(|e| e.to_string())?;
                            Ok(v)
                        }
                    },
                }
            });
            cx.rep.ev(1);
            cx.rep.cell(&[11, r as u64, (*size > 0x7FFF) as u64]);
            match got {
                Err(e) => {
                    cx.viol(&format!("panic:server_encrypt_route{}", r), e);
                    ok = false;
                }
                Ok(Err(e)) => {
                    cx.viol(&format!("write_to_vec_failed:route{}", r), e);
                    ok = false;
                }
                Ok(Ok(b)) => {
                    if b != sexpect[i] {
                        cx.viol(
                            &format!("server_encrypt_route_differs:{}:route{}", if *size > 0x7FFF { "long" } else { "short" }, r),
                            format!("route {} gave {} for size={:#x} opcode={:#x}; raw operation on the wire layout gives {}", r, hex(&b), size, op, hex(&sexpect[i])),
                        );
                        ok = false;
                    }
                }
            }
            if !ok {
                break;
            }
        }
        if ok {
            let mut t = tail.clone();
            match &mut st {
                SS::Whole(w) => w.encrypt(&mut t),
                SS::Halves(e, _) => e.encrypt(&mut t),
            }
            if t != tail_s_expect {
                cx.viol(&format!("state_after_server_encrypt_route{}", route), "next 48 bytes differ from the state after the raw operation".into());
            }
        }
    }
    // ===== client role, decrypt: the same server headers through nine routes =====
    let tail_w = rng.bytes(48);
    let mut tail_cd_expect = tail_w.clone();
    m_s_after.clone().xor(&mut tail_cd_expect);
    for route in 0..10u8 {
        let mut st = CS::Whole(client.clone());
        let mut ok = true;
        for (i, (size, op)) in shdrs.iter().enumerate() {
            let r = if route == 9 { rng.below(9) as u8 } else { route };
            let wire = &sexpect[i];
            let got = guard(|| -> Result<(u32, u16), String> {
                if r >= 6 {
                    if let CS::Whole(w) = st.clone() {
                        let (e, d) = w.split();
                        st = CS::Halves(e, d);
                    }
                }
                let kind = r % 3;
                let parse = |d: &[u8]| -> (u32, u16) {
                    if d.len() == 5 {
                        (((d[0] & 0x7F) as u32) << 16 | (d[1] as u32) << 8 | d[2] as u32, u16::from_le_bytes([d[3], d[4]]))
                    } else {
                        ((d[0] as u32) << 8 | d[1] as u32, u16::from_le_bytes([d[2], d[3]]))
                    }
                };
                let first = [wire[0], wire[1], wire[2], wire[3]];
                match &mut st {
                    CS::Whole(w) => match (r >= 3, kind) {
                        (false, 0) => {
                            let mut d = wire.clone();
                            w.decrypt(&mut d);
                            Ok(parse(&d))
                        }
                        (false, 1) => match w.attempt_decrypt_server_header(first) {
                            WrathServerAttempt::Header(h) => Ok((h.size, h.opcode)),
                            WrathServerAttempt::AdditionalByteRequired => {
                                if wire.len() < 5 {
                                    return Err("fifth byte requested for a 4-byte header".into());
                                }
                                let h = w.decrypt_large_server_header(wire[4]);
                                Ok((h.size, h.opcode))
                            }
                        },
                        (false, _) => w.read_and_decrypt_server_header(&mut &wire[..]).map(|h| (h.size, h.opcode)).map_err(|e| e.to_string()),
                        (true, 0) => {
                            let mut d = wire.clone();
                            w.decrypter().decrypt(&mut d);
                            Ok(parse(&d))
                        }
                        (true, 1) => match w.decrypter().attempt_decrypt_server_header(first) {
                            WrathServerAttempt::Header(h) => Ok((h.size, h.opcode)),
                            WrathServerAttempt::AdditionalByteRequired => {
                                if wire.len() < 5 {
                                    return Err("fifth byte requested for a 4-byte header".into());
                                }
                                let h = w.decrypter().decrypt_large_server_header(wire[4]);
                                Ok((h.size, h.opcode))
                            }
                        },
                        (true, _) => w.decrypter().read_and_decrypt_server_header(&mut &wire[..]).map(|h| (h.size, h.opcode)).map_err(|e| e.to_string()),
                    },
                    CS::Halves(_, d) => match kind {
                        0 => {
                            let mut x = wire.clone();
                            d.decrypt(&mut x);
                            Ok(parse(&x))
                        }
                        1 => match d.attempt_decrypt_server_header(first) {
                            WrathServerAttempt::Header(h) => Ok((h.size, h.opcode)),
                            WrathServerAttempt::AdditionalByteRequired => {
                                if wire.len() < 5 {
                                    return Err("fifth byte requested for a 4-byte header".into());
                                }
                                let h = d.decrypt_large_server_header(wire[4]);
                                Ok((h.size, h.opcode))
                            }
                        },
                        _ => d.read_and_decrypt_server_header(&mut &wire[..]).map(|h| (h.size, h.opcode)).map_err(|e| e.to_string()),
                    },
                }
            });
            cx.rep.ev(1);
            cx.rep.cell(&[12, r as u64, (*size > 0x7FFF) as u64]);
            match got {
                Err(e) => {
                    cx.viol(&format!("panic:client_decrypt_route{}", r), e);
                    ok = false;
                }
                Ok(Err(e)) => {
                    cx.viol(&format!("client_decrypt_route_error:route{}", r), e);
                    ok = false;
                }
                Ok(Ok(h)) => {
                    if h != (*size, *op) {
                        cx.viol(
                            &format!("client_decrypt_route_differs:{}:route{}", if *size > 0x7FFF { "long" } else { "short" }, r),
                            format!("route {} decoded size={:#x} opcode={:#x}; sent size={:#x} opcode={:#x}", r, h.0, h.1, size, op),
                        );
                        ok = false;
                    }
                }
            }
            if !ok {
                break;
            }
        }
        if ok {
            let mut t = tail_w.clone();
            match &mut st {
                CS::Whole(w) => w.decrypt(&mut t),
                CS::Halves(_, d) => d.decrypt(&mut t),
            }
            if t != tail_cd_expect {
                cx.viol(&format!("state_after_client_decrypt_route{}", route), "next 48 bytes differ from the state after the raw operation".into());
            }
        }
    }
    // ===== client role, encrypt + server role, decrypt: client headers =====
    let chdrs: Vec<(u16, u32)> = (0..nh).map(|_| (rng.next() as u16, if rng.chance(1, 4) { *rng.pick(&[0u32, 0xFF, 0x100, 0xFFFF, 0x10000, 0xFFFFFFFF]) } else { rng.next() as u32 })).collect();
    let mut cexpect: Vec<Vec<u8>> = Vec::new();
    let mut m_c_after = m_c2s.clone();
    for (size, op) in &chdrs {
        let mut l = client_layout(*size, *op).to_vec();
        m_c_after.xor(&mut l);
        cexpect.push(l);
    }
    let mut tail_c_expect = tail.clone();
    m_c_after.clone().xor(&mut tail_c_expect);
    for route in 0..10u8 {
        let mut st = CS::Whole(client.clone());
        let mut sst = SS::Whole(server.clone());
        let mut ok = true;
        for (i, (size, op)) in chdrs.iter().enumerate() {
            let r = if route == 9 { rng.below(9) as u8 } else { route };
            let got = guard(|| -> Result<(Vec<u8>, (u16, u32)), String> {
                if r >= 6 {
                    if let CS::Whole(w) = st.clone() {
                        let (e, d) = w.split();
                        st = CS::Halves(e, d);
                    }
                    if let SS::Whole(w) = sst.clone() {
                        let (e, d) = w.split();
                        sst = SS::Halves(e, d);
                    }
                }
                let kind = r % 3;
                let bytes: Vec<u8> = match &mut st {
                    CS::Whole(w) => match (r >= 3, kind) {
                        (false, 0) => {
                            let mut d = client_layout(*size, *op).to_vec();
                            w.encrypt(&mut d);
                            d
                        }
                        (false, 1) => w.encrypt_client_header(*size, *op).to_vec(),
                        (false, _) => {
                            let mut v = Vec::new();
                            w.write_encrypted_client_header(&mut v, *size, *op).map_err(|e| e.to_string())?;
                            v
                        }
                        (true, 0) => {
                            let mut d = client_layout(*size, *op).to_vec();
                            w.encrypter().encrypt(&mut d);
                            d
                        }
                        (true, 1) => w.encrypter().encrypt_client_header(*size, *op).to_vec(),
                        (true, _) => {
                            let mut v = Vec::new();
                            w.encrypter().write_encrypted_client_header(&mut v, *size, *op).map_err(|e| e.to_string())?;
                            v
                        }
                    },
                    CS::Halves(e, _) => match kind {
                        0 => {
                            let mut d = client_layout(*size, *op).to_vec();
                            e.encrypt(&mut d);
                            d
                        }
                        1 => e.encrypt_client_header(*size, *op).to_vec(),
                        _ => {
                            let mut v = Vec::new();
                            e.write_encrypted_client_header(&mut v, *size, *op).map_err(|e| e.to_string())?;
                            v
                        }
                    },
                };
                // the server decodes the *expected* wire bytes through the same-numbered route
                let wire = &cexpect[i];
                let arr = [wire[0], wire[1], wire[2], wire[3], wire[4], wire[5]];
                let parse = |d: &[u8]| -> (u16, u32) { (u16::from_be_bytes([d[0], d[1]]), u32::from_le_bytes([d[2], d[3], d[4], d[5]])) };
                let h = match &mut sst {
                    SS::Whole(w) => match (r >= 3, kind) {
                        (false, 0) => {
                            let mut d = wire.clone();
                            w.decrypt(&mut d);
                            parse(&d)
                        }
                        (false, 1) => {
                            let h = w.decrypt_client_header(arr);
                            (h.size, h.opcode)
                        }
                        (false, _) => w.read_and_decrypt_client_header(&mut &wire[..]).map(|h| (h.size, h.opcode)).map_err(|e| e.to_string())?,
                        (true, 0) => {
                            let mut d = wire.clone();
                            w.decrypter().decrypt(&mut d);
                            parse(&d)
                        }
                        (true, 1) => {
                            let h = w.decrypter().decrypt_client_header(arr);
                            (h.size, h.opcode)
                        }
                        (true, _) => w.decrypter().read_and_decrypt_client_header(&mut &wire[..]).map(|h| (h.size, h.opcode)).map_err(|e| e.to_string())?,
                    },
                    SS::Halves(_, d) => match kind {
                        0 => {
                            let mut x = wire.clone();
                            d.decrypt(&mut x);
                            parse(&x)
                        }
                        1 => {
                            let h = d.decrypt_client_header(arr);
                            (h.size, h.opcode)
                        }
                        _ => d.read_and_decrypt_client_header(&mut &wire[..]).map(|h| (h.size, h.opcode)).map_err(|e| e.to_string())?,
                    },
                };
                Ok((bytes, h))
            });
            cx.rep.ev(2);
            cx.rep.cell(&[13, r as u64]);
            match got {
                Err(e) => {
                    cx.viol(&format!("panic:client_header_route{}", r), e);
                    ok = false;
                }
                Ok(Err(e)) => {
                    cx.viol(&format!("client_header_route_error:route{}", r), e);
                    ok = false;
                }
                Ok(Ok((b, h))) => {
                    if b != cexpect[i] {
                        cx.viol(&format!("client_encrypt_route_differs:route{}", r), format!("route {} gave {} for size={:#x} opcode={:#x}; raw operation gives {}", r, hex(&b), size, op, hex(&cexpect[i])));
                        ok = false;
                    }
                    if h != (*size, *op) {
                        cx.viol(&format!("server_decrypt_route_differs:route{}", r), format!("route {} decoded {:?}; sent {:?}", r, h, (size, op)));
                        ok = false;
                    }
                }
            }
            if !ok {
                break;
            }
        }
        if ok {
            let mut t = tail.clone();
            match &mut st {
                CS::Whole(w) => w.encrypt(&mut t),
                CS::Halves(e, _) => e.encrypt(&mut t),
            }
            let mut t2 = tail.clone();
            match &mut sst {
                SS::Whole(w) => w.decrypt(&mut t2),
                SS::Halves(_, d) => d.decrypt(&mut t2),
            }
            if t != tail_c_expect || t2 != tail_c_expect {
                cx.viol(&format!("state_after_client_header_route{}", route), "next 48 bytes differ from the state after the raw operation".into());
            }
        }
    }
    cx.rep.count("route_connections", 30);

    // ===== readers: fragmentation / failure, header kinds: client6 (server reads), server4, server5 (client reads) =====
    for hk in ["client6", "server4", "server5"] {
        let (wire, want_s, want_c): (Vec<u8>, (u32, u16), (u16, u32)) = match hk {
            "client6" => {
                let (s, o) = (rng.next() as u16, rng.next() as u32);
                let mut l = client_layout(s, o).to_vec();
                m_c2s.clone().xor(&mut l);
                (l, (0, 0), (s, o))
            }
            "server4" => {
                let (s, o) = (rng.below(0x8000) as u32, rng.next() as u16);
                let mut l = wrath_server_layout(s, o);
                m_s2c.clone().xor(&mut l);
                (l, (s, o), (0, 0))
            }
            _ => {
                let (s, o) = (0x8000 + rng.below(0x7F8000) as u32, rng.next() as u16);
                let mut l = wrath_server_layout(s, o);
                m_s2c.clone().xor(&mut l);
                (l, (s, o), (0, 0))
            }
        };
        let len = wire.len();
        // what follows on the wire: for the server kinds it starts with one more (short) header, so that the read-based call
        // can take it as well as the raw call
        let mut next_expect = rng.bytes(16);
        if hk != "client6" {
            next_expect[0] &= 0x7f;
        }
        let next_hdr = (u32::from_be_bytes([0, 0, next_expect[0], next_expect[1]]), u16::from_le_bytes([next_expect[2], next_expect[3]]) as u32);
        let mut next_wire = next_expect.clone();
        {
            let mut m = if hk == "client6" { m_c2s.clone() } else { m_s2c.clone() };
            m.skip(len);
            m.xor(&mut next_wire);
        }
        let via_half = rng.chance(1, 2);
        // read through the library; returns decoded header as (u32 size, u32 opcode)
        let read_srv = |obj: &mut ServerCrypto, r: &mut FragReader| -> std::io::Result<(u32, u32)> {
            if via_half {
                obj.decrypter().read_and_decrypt_client_header(r).map(|h| (h.size as u32, h.opcode))
            } else {
                obj.read_and_decrypt_client_header(r).map(|h| (h.size as u32, h.opcode))
            }
        };
        let read_cli = |obj: &mut ClientCrypto, r: &mut FragReader| -> std::io::Result<(u32, u32)> {
            if via_half {
                obj.decrypter().read_and_decrypt_server_header(r).map(|h| (h.size, h.opcode as u32))
            } else {
                obj.read_and_decrypt_server_header(r).map(|h| (h.size, h.opcode as u32))
            }
        };
        let want: (u32, u32) = if hk == "client6" { (want_c.0 as u32, want_c.1) } else { (want_s.0, want_s.1 as u32) };
        // (C) all fragmentations
        for cuts in 0..all_cuts(len) {
            for interrupt in [false, true] {
                cx.rep.ev(1);
                cx.rep.count("fragmentations_enumerated", 1);
                cx.rep.cell(&[14, len as u64, cuts as u64, interrupt as u64, (hk == "client6") as u64]);
                let mut rd = FragReader::new(&wire, len, cuts, interrupt, Fail::None);
                        rd.storm = storm_for(cx.sample, cuts, all_cuts(len));
                        if rd.storm > 1 && interrupt {
                            cx.rep.count("interruption_storms_64_to_70000_before_every_byte", 1);
                        }
                let (res, after): (Result<std::io::Result<(u32, u32)>, String>, Vec<u8>) = if hk == "client6" {
                    let mut obj = server.clone();
                    let r = guard(|| read_srv(&mut obj, &mut rd));
                    let mut t = next_wire.clone();
                    obj.decrypt(&mut t);
                    (r, t)
                } else {
                    let mut obj = client.clone();
                    let r = guard(|| read_cli(&mut obj, &mut rd));
                    let mut t = next_wire.clone();
                    obj.decrypt(&mut t);
                    (r, t)
                };
                match res {
                    Err(e) => cx.viol(&format!("panic:fragmented_read:{}", hk), e),
                    Ok(Err(e)) => cx.viol(
                        &format!("fragmented_read_fails:{}:{}", hk, if interrupt { "interrupted" } else { "fragments" }),
                        format!("a reader delivering the header in fragments (cuts {:#b}, interruptions {}, {} in a row) made the call fail: {}", cuts, interrupt, storm_for(cx.sample, cuts, all_cuts(len)), e),
                    ),
                    Ok(Ok(h)) => {
                        if h != want {
                            cx.viol(&format!("fragmented_read_value:{}", hk), format!("cuts {:#b}: decoded {:?}, sent {:?}", cuts, h, want));
                        } else if after != next_expect {
                            cx.viol(&format!("fragmented_read_state:{}", hk), format!("cuts {:#b} interruptions {}: the stream is out of step after the read", cuts, interrupt));
                        }
                    }
                }
            }
        }
        // (D) failure at every offset
        for off in 0..len {
            for (fi, fk) in FAIL_KINDS.iter().enumerate() {
                let ncuts = if faults_full { all_cuts(off) } else { 1.max(all_cuts(off).min(2)) };
                for cuts in 0..ncuts {
                    for interrupt in [false, true] {
                        cx.rep.ev(1);
                        cx.rep.count("fault_points_enumerated", 1);
                        cx.rep.cell(&[15, len as u64, off as u64, fi as u64, cuts as u64, interrupt as u64, (hk == "client6") as u64]);
                        let mut rd = FragReader::new(&wire, off, cuts, interrupt, *fk);
                        if hk == "client6" {
                            let mut obj = server.clone();
                            match guard(|| read_srv(&mut obj, &mut rd)) {
                                Err(e) => cx.viol(&format!("panic:failing_read:{}", hk), e),
                                Ok(Ok(h)) => cx.viol(&format!("failing_read_returns_ok:{}:off{}", hk, off), format!("reader failed ({:?}) after {} of {} bytes but the call returned Ok({:?})", fk, off, len, h)),
                                Ok(Err(_)) => {
                                    let untouched = obj == server;
                                    let h = obj.decrypt_client_header([wire[0], wire[1], wire[2], wire[3], wire[4], wire[5]]);
                                    let mut t = next_wire.clone();
                                    obj.decrypt(&mut t);
                                    if (h.size as u32, h.opcode) != want || t != next_expect {
                                        cx.viol(
                                            &format!("failed_read_consumed_keystream:{}:off{}", hk, off),
                                            format!("after a read that failed ({:?}) at byte {} of {}, the decrypter is out of step: the retransmitted header decodes as ({:#x},{:#x}) instead of {:?}", fk, off, len, h.size, h.opcode, want),
                                        );
                                    } else if !untouched {
                                        cx.rep.count("failed_read_object_not_eq_but_behaviour_same", 1);
                                    }
                                }
                            }
                        } else {
                            let mut obj = client.clone();
                            match guard(|| read_cli(&mut obj, &mut rd)) {
                                Err(e) => cx.viol(&format!("panic:failing_read:{}", hk), e),
                                Ok(Ok(h)) => cx.viol(&format!("failing_read_returns_ok:{}:off{}", hk, off), format!("reader failed ({:?}) after {} of {} bytes but the call returned Ok({:?})", fk, off, len, h)),
                                Ok(Err(_)) => {
                                    if off < 4 {
                                        // exactly as it was: the whole header can be supplied again
                                        let untouched = obj == client;
                                        let r2 = guard(|| obj.read_and_decrypt_server_header(&mut &wire[..]).map(|h| (h.size, h.opcode as u32)));
                                        let mut t = next_wire.clone();
                                        obj.decrypt(&mut t);
                                        match r2 {
                                            Ok(Ok(h)) if h == want && t == next_expect => {
                                                if !untouched {
                                                    cx.rep.count("failed_read_object_not_eq_but_behaviour_same", 1);
                                                }
                                            }
                                            other => cx.viol(
                                                &format!("failed_read_consumed_keystream:{}:off{}", hk, off),
                                                format!("after a read that failed ({:?}) at byte {} of {}, the decrypter is out of step: retransmitted header gives {:?} instead of {:?}", fk, off, len, other, want),
                                            ),
                                        }
                                    } else {
                                        // 5-byte header failing at the fifth byte: exactly as after the 4-byte attempt
                                        let mut reference = client.clone();
                                        let _ = reference.attempt_decrypt_server_header([wire[0], wire[1], wire[2], wire[3]]);
                                        let untouched = obj == reference;
                                        // meanwhile another connection on this thread decodes a large header of its own, and
                                        // sometimes it is a copy of the waiting object that receives the fifth byte
                                        if cuts % 2 == 0 {
                                            let (mut oc, mut os) = objs::wrath_pair([fi as u8 ^ 0x5c; 40]);
                                            let w2 = os.encrypt_server_header(0x8000 + off as u32 * 977, 0x1234).to_vec();
                                            let _ = oc.read_and_decrypt_server_header(&mut &w2[..]);
                                            let w3 = os.encrypt_server_header(0x123456, 7).to_vec();
                                            let _ = oc.attempt_decrypt_server_header([w3[0], w3[1], w3[2], w3[3]]);
                                        }
                                        if interrupt {
                                            let copy = obj.clone();
                                            obj = copy;
                                        }
                                        // while the fifth byte is outstanding, one more read fails before four bytes have
                                        // arrived: that, too, must leave the decrypter exactly as it was (still waiting)
                                        let mut second = false;
                                        if cuts == 0 {
                                            second = true;
                                            let off2 = (fi + interrupt as usize) % 4;
                                            let mut rd2 = FragReader::new(&next_wire, off2, 0, interrupt, *fk);
                                            cx.rep.count("failed_reads_while_a_fifth_byte_is_outstanding", 1);
                                            match guard(|| read_cli(&mut obj, &mut rd2)) {
                                                Err(e) => cx.viol("panic:failing_read_while_waiting:server5", e),
                                                Ok(Ok(h)) => cx.viol(
                                                    "failing_read_returns_ok:server5:while_waiting",
                                                    format!("reader failed ({:?}) after {} of 4 bytes but the call returned Ok({:?})", fk, off2, h),
                                                ),
                                                Ok(Err(_)) => {}
                                            }
                                        }
                                        let h = guard(|| obj.decrypt_large_server_header(wire[4]));
                                        let mut t = next_wire.clone();
                                        let mut next_ok = true;
                                        if (fi + cuts as usize) % 2 == 1 {
                                            // the header that follows is taken by the read-based call again
                                            cx.rep.count("read_based_call_after_a_header_completed_by_its_late_fifth_byte", 1);
                                            match guard(|| obj.read_and_decrypt_server_header(&mut &next_wire[..]).map(|h| (h.size, h.opcode as u32))) {
                                                Ok(Ok(h2)) if h2 == next_hdr => {
                                                    t[..4].copy_from_slice(&next_expect[..4]);
                                                    obj.decrypt(&mut t[4..]);
                                                }
                                                _ => next_ok = false,
                                            }
                                        } else {
                                            obj.decrypt(&mut t);
                                        }
                                        match h {
                                            Ok(_) if !next_ok => cx.viol(
                                                "read_after_late_fifth_byte:server5",
                                                format!("after a 5-byte header whose fifth byte failed to arrive ({:?}) was completed by supplying that byte later, the read-based call does not decode the header that follows", fk),
                                            ),
                                            Ok(h) if (h.size, h.opcode as u32) == want && t == next_expect => {
                                                if !untouched {
                                                    cx.rep.count("failed_read_object_not_eq_but_behaviour_same", 1);
                                                }
                                                cx.rep.count("fifth_byte_supplied_later_completes", 1);
                                                if cx.sample == 0 && fi == 0 && cuts == 0 && !interrupt {
                                                    cx.rep.sample(format!(
                                                        "wrath 5-byte server header, wire {}: reader returns {:?} at the fifth byte -> Err; decrypter == (clone after 4-byte attempt): {}; decrypt_large_server_header({:#04x}) -> size={:#x} opcode={:#x}",
                                                        hex(&wire), fk, untouched, wire[4], h.size, h.opcode
                                                    ));
                                                }
                                            }
                                            other if second => cx.viol(
                                                "failed_read_while_fifth_byte_outstanding:server5",
                                                format!("a decrypter waiting for the fifth byte of a header was handed a reader that failed ({:?}) before delivering four bytes; afterwards the waiting header is no longer completed by its fifth byte: got {:?}, sent {:?}", fk, other.map(|h| (h.size, h.opcode)), want),
                                            ),
                                            other => cx.viol(
                                                "failed_fifth_byte_state:server5",
                                                format!("a 5-byte header whose fifth byte failed to arrive ({:?}) is not completed by supplying that byte later: got {:?}, sent {:?}", fk, other.map(|h| (h.size, h.opcode)), want),
                                            ),
                                        }
                                    }
                                }
                            }
                        }
                    }
                }
            }
        }
    }
    // ===== writers =====
    for hk in ["client6", "server4", "server5"] {
        let (size, op): (u32, u32) = match hk {
            "client6" => (rng.next() as u16 as u32, rng.next() as u32),
            "server4" => (rng.below(0x8000) as u32, rng.next() as u16 as u32),
            _ => (0x8000 + rng.below(0x7F8000) as u32, rng.next() as u16 as u32),
        };
        let mut wexpect: Vec<u8> = if hk == "client6" { client_layout(size as u16, op).to_vec() } else { wrath_server_layout(size, op as u16) };
        if hk == "client6" {
            m_c2s.clone().xor(&mut wexpect);
        } else {
            m_s2c.clone().xor(&mut wexpect);
        }
        let len = wexpect.len();
        let via_half = rng.chance(1, 2);
        let mut do_write = |wr: &mut FragWriter| -> Result<std::io::Result<()>, String> {
            if hk == "client6" {
                let mut obj = client.clone();
                guard(|| if via_half { obj.encrypter().write_encrypted_client_header(&mut *wr, size as u16, op) } else { obj.write_encrypted_client_header(&mut *wr, size as u16, op) })
            } else {
                let mut obj = server.clone();
                guard(|| if via_half { obj.encrypter().write_encrypted_server_header(&mut *wr, size, op as u16) } else { obj.write_encrypted_server_header(&mut *wr, size, op as u16) })
            }
        };
        for cuts in 0..all_cuts(len) {
            for interrupt in [false, true] {
                let mut wr = FragWriter::new(len, cuts, interrupt, Fail::None);
                        wr.storm = storm_for(cx.sample, cuts, all_cuts(len));
                cx.rep.ev(1);
                cx.rep.count("short_write_patterns_enumerated", 1);
                cx.rep.cell(&[16, len as u64, cuts as u64, interrupt as u64, (hk == "client6") as u64]);
                match do_write(&mut wr) {
                    Err(e) => cx.viol(&format!("panic:short_write:{}", hk), e),
                    Ok(Err(_e)) => {
                        cx.rep.count("info_short_or_interrupted_write_returned_error", 1);
                    }
                    Ok(Ok(())) => {
                        if wr.sink != wexpect {
                            cx.viol(&format!("short_write_bytes:{}", hk), format!("sink received {}, expected {}", hex(&wr.sink), hex(&wexpect)));
                        }
                    }
                }
            }
        }
        for acc in 0..len {
            for (fi, fk) in FAIL_KINDS.iter().enumerate() {
                let ncuts = if faults_full { all_cuts(acc) } else { 1.max(all_cuts(acc).min(2)) };
                for cuts in 0..ncuts {
                    for interrupt in [false, true] {
                        let mut wr = FragWriter::new(acc, cuts, interrupt, *fk);
                        cx.rep.ev(1);
                        cx.rep.count("write_fault_points_enumerated", 1);
                        cx.rep.cell(&[17, len as u64, acc as u64, fi as u64, cuts as u64, interrupt as u64, (hk == "client6") as u64]);
                        match do_write(&mut wr) {
                            Err(e) => cx.viol(&format!("panic:failing_write:{}", hk), e),
                            Ok(Ok(())) => cx.viol(
                                &format!("write_error_swallowed:{}:acc{}", hk, acc),
                                format!("the writer failed ({:?}) after accepting {} of {} bytes but the call returned Ok", fk, acc, len),
                            ),
                            Ok(Err(_)) => {}
                        }
                    }
                }
            }
        }
    }
}

pub fn run(tier: &str, seed: u64) -> Rep {
    let mut total = Rep::new();
    total.rule = "per sample (session key, position in a conversation, sizes/opcodes) and expansion: nine entry-point routes per direction \
(combined raw/typed/Read-Write wrapper, the same through encrypter()/decrypter(), the same on split halves) plus a mixed connection, \
each compared byte for byte with the raw operation on the wire layout and followed by 48 more bytes to compare state; then for every header \
kind all 2^(len-1) fragmentations x {no interruption, Interrupted before every fragment}; a failure injected at every offset x \
{Ok(0), ConnectionReset, WouldBlock, TimedOut, BrokenPipe, Other} x all fragmentations of the delivered prefix; the same for writers. \
distinct = distinct (route, direction, header kind) and (header kind, offset, error kind, fragmentation, interruption) cells"
        .to_string();
    let samples: u64 = match tier {
        "quick" => 8000,
        "thorough" => 100_000,
        _ => 1,
    };
    let shards = 64usize.min(samples as usize).max(1);
    let r = par(shards, threads(), |sh| {
        let mut rep = Rep::new();
        let mut rng = Rng::new(seed, 0x11000 + sh as u64);
        let per = (samples as usize + shards - 1) / shards;
        for i in 0..per {
            let sample = (sh * per + i) as u64;
            let mut r1 = Rng::new(seed ^ 0x11, sample * 3);
            let full = tier != "miri";
            vanilla_sample(&mut rep, &mut r1, sample, full, seed);
            let mut r2 = Rng::new(seed ^ 0x11, sample * 3 + 1);
            tbc_sample(&mut rep, &mut r2, sample, full, seed);
            let mut r3 = Rng::new(seed ^ 0x11, sample * 3 + 2);
            wrath_sample(&mut rep, &mut r3, sample, full, seed);
            rep.count("samples_per_expansion", 1);
            let _ = &mut rng;
        }
        rep
    });
    total.merge(r);
    total.exhaustive = Some(tier != "miri");
    total.note("fault enumeration complete per sample: every offset x error kind x fragmentation x interruption for header kinds V/TBC server4, V/TBC client6, Wrath client6, Wrath server4, Wrath server5".to_string());
    let _ = seed;
    total
}

pub fn replay(args: &[String], seed_unused: u64) -> Rep {
    let _ = seed_unused;
    let mut rep = Rep::new();
    // sample <tag> <key> <sample index>; the sample RNG is derived from (seed, sample) -> stored seed in args[4] if present
    if args.len() >= 4 && args[0] == "sample" {
        let sample: u64 = args[3].parse().unwrap_or(0);
        let seed: u64 = args.get(4).and_then(|s| s.parse().ok()).unwrap_or(1);
        match args[1].as_str() {
            "vanilla" => {
                let mut r = Rng::new(seed ^ 0x11, sample * 3);
                vanilla_sample(&mut rep, &mut r, sample, true, seed)
            }
            "tbc" => {
                let mut r = Rng::new(seed ^ 0x11, sample * 3 + 1);
                tbc_sample(&mut rep, &mut r, sample, true, seed)
            }
            _ => {
                let mut r = Rng::new(seed ^ 0x11, sample * 3 + 2);
                wrath_sample(&mut rep, &mut r, sample, true, seed)
            }
        }
    }
    rep
}
