//! The reference models check themselves against frozen copies of the maintainers' vectors, so a
//! wrong model is caught as a harness error on the unchanged tree instead of raising violations.
use crate::util::*;

fn lines(rel: &str, limit: usize) -> Result<Vec<Vec<String>>, String> {
    let p = format!("{}/{}", VECTORS_DIR, rel);
    let s = std::fs::read_to_string(&p).map_err(|e| format!("{}: {}", p, e))?;
    Ok(s.lines().take(limit).map(|l| l.split_whitespace().map(|x| x.to_string()).collect::<Vec<_>>()).filter(|v: &Vec<String>| !v.is_empty()).collect())
}

fn key40(hexs: &str, reverse: bool) -> [u8; 40] {
    let mut b = unhex(hexs);
    if reverse {
        b.reverse();
    }
    let mut k = [0u8; 40];
    k.copy_from_slice(&b[..40]);
    k
}

pub fn ciphers() -> Result<u64, String> {
    let mut n = 0;
    for l in lines("encryption/calculate_encrypt_values.txt", 200)? {
        let k = key40(&l[0], false);
        let mut d = unhex(&l[1]);
        ModelAdd::new(&k).enc(&mut d);
        if d != unhex(&l[2]) {
            return Err("vanilla encrypt model disagrees with the frozen vectors".into());
        }
        n += 1;
    }
    for l in lines("encryption/calculate_decrypt_values.txt", 200)? {
        let k = key40(&l[0], false);
        let mut d = unhex(&l[1]);
        ModelAdd::new(&k).dec(&mut d);
        if d != unhex(&l[2]) {
            return Err("vanilla decrypt model disagrees with the frozen vectors".into());
        }
        n += 1;
    }
    for l in lines("encryption/calculate_tbc_encrypt_values.txt", 200)? {
        let k = key40(&l[0], true);
        let plain = unhex(&l[1]);
        let mut d = plain.clone();
        ModelAdd::new(&tbc_key(&k)).enc(&mut d);
        if d != unhex(&l[2]) {
            return Err("tbc model (client) disagrees with the frozen vectors".into());
        }
        let mut d = plain.clone();
        ModelAdd::new(&tbc_key(&k)).enc(&mut d);
        if d != unhex(&l[3]) {
            return Err("tbc model (server) disagrees with the frozen vectors".into());
        }
        n += 1;
    }
    for l in lines("encryption/calculate_wrath_encrypt_values.txt", 200)? {
        let k = key40(&l[0], false);
        let plain = unhex(&l[1]);
        let mut d = plain.clone();
        wrath_model(&WRATH_S, &k).xor(&mut d);
        if d != unhex(&l[2]) {
            return Err("wrath model (client->server) disagrees with the frozen vectors".into());
        }
        let mut d = plain.clone();
        wrath_model(&WRATH_R, &k).xor(&mut d);
        if d != unhex(&l[3]) {
            return Err("wrath model (server->client) disagrees with the frozen vectors".into());
        }
        n += 1;
    }
    for l in lines("encryption/calculate_world_server_proof.txt", 200)? {
        let k = key40(&l[1], true);
        let ss = u32::from_le_bytes(unhex(&l[2])[..4].try_into().unwrap());
        let cs = u32::from_le_bytes(unhex(&l[3])[..4].try_into().unwrap());
        if world_proof(&l[0].to_ascii_uppercase(), cs, ss, &k).to_vec() != unhex(&l[4]) {
            return Err("world proof model disagrees with the frozen vectors".into());
        }
        n += 1;
    }
    Ok(n)
}
