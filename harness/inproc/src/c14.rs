//! C14 (E2 part) — arbitrary header byte sequences through every decrypting entry point, in any order and amount.
use crate::faultio::*;
use crate::objs;
use crate::util::*;

fn soup(rep: &mut Rep, seed: u64, ops: usize) {
    let mut rng = Rng::new(seed, 0x14);
    let k: [u8; 40] = match rng.below(4) {
        0 => [0u8; 40],
        1 => [0xff; 40],
        _ => rng.arr(),
    };
    let replay = format!("soup {} {}", seed, ops);
    // the order in which the three expansions are first used on this thread varies
    let order = seed % 6;
    let built = guard(|| match order {
        0 => {
            let v = objs::vanilla_pair(k);
            let t = objs::tbc_pair(k);
            let w = objs::wrath_pair(k);
            (v, t, w)
        }
        1 => {
            let w = objs::wrath_pair(k);
            let t = objs::tbc_pair(k);
            let v = objs::vanilla_pair(k);
            (v, t, w)
        }
        2 => {
            let t = objs::tbc_pair(k);
            let w = objs::wrath_pair(k);
            let v = objs::vanilla_pair(k);
            (v, t, w)
        }
        3 => {
            let t = objs::tbc_pair(k);
            let v = objs::vanilla_pair(k);
            let w = objs::wrath_pair(k);
            (v, t, w)
        }
        4 => {
            let w = objs::wrath_pair(k);
            let v = objs::vanilla_pair(k);
            let t = objs::tbc_pair(k);
            (v, t, w)
        }
        _ => {
            let v = objs::vanilla_pair(k);
            let w = objs::wrath_pair(k);
            let t = objs::tbc_pair(k);
            (v, t, w)
        }
    });
    let ((mut vc, mut vs), (mut tc, mut ts), (mut wc, mut ws)) = match built {
        Ok(x) => x,
        Err(e) => {
            rep.ev(1);
            rep.violation(
                "c14:panic:world_login",
                format!("a valid world login (proof / seeds as a peer would send them) panicked when the three expansions were set up in order {} on one thread: {}", order, e),
                replay,
            );
            return;
        }
    };
    let mut trace: Vec<u8> = Vec::new();
    for _ in 0..ops {
        let op = rng.below(30) as u8;
        trace.push(op);
        let junk = rng.bytes(8);
        let n = rng.below(9) as usize;
        let big = rng.chance(1, 4);
        let fail = *rng.pick(&FAIL_KINDS);
        let cuts = rng.next() as u32;
        let intr = rng.chance(1, 3);
        let a4 = [junk[0], junk[1], junk[2], junk[3]];
        let a6 = [junk[0], junk[1], junk[2], junk[3], junk[4], junk[5]];
        let r = guard(|| {
            let mut rd = FragReader::new(&junk, n.min(junk.len()), cuts, intr, fail);
            match op {
                0 => {
                    let mut d = rng.bytes(if big { n * 77 } else { n * 7 });
                    vs.decrypt(&mut d)
                }
                1 => {
                    let _ = vs.decrypt_client_header(a6);
                }
                2 => {
                    let _ = vc.decrypt_server_header(a4);
                }
                3 => {
                    let _ = vs.read_and_decrypt_client_header(&mut rd);
                }
                4 => {
                    let _ = vc.read_and_decrypt_server_header(&mut rd);
                }
                5 => {
                    let mut d = rng.bytes(if big { n * 77 } else { n * 7 });
                    ts.decrypt(&mut d)
                }
                6 => {
                    let _ = ts.decrypt_client_header(a6);
                }
                7 => {
                    let _ = tc.decrypt_server_header(a4);
                }
                8 => {
                    let _ = ts.read_and_decrypt_client_header(&mut rd);
                }
                9 => {
                    let _ = tc.read_and_decrypt_server_header(&mut rd);
                }
                10 => {
                    let mut d = rng.bytes(if big { n * 77 } else { n * 7 });
                    ws.decrypt(&mut d)
                }
                11 => {
                    let _ = ws.decrypt_client_header(a6);
                }
                12 => {
                    let _ = ws.read_and_decrypt_client_header(&mut rd);
                }
                13 => {
                    let mut d = rng.bytes(if big { n * 77 } else { n * 7 });
                    wc.decrypt(&mut d)
                }
                14 => {
                    let _ = wc.attempt_decrypt_server_header(a4);
                }
                15 => {
                    // without a preceding attempt
                    let _ = wc.decrypt_large_server_header(junk[6]);
                }
                16 => {
                    let _ = wc.read_and_decrypt_server_header(&mut rd);
                }
                17 => {
                    let _ = wc.decrypter().decrypt_large_server_header(junk[7]);
                }
                18 => {
                    let _ = wc.decrypter().attempt_decrypt_server_header(a4);
                }
                19 => {
                    let _ = ws.decrypter().read_and_decrypt_client_header(&mut rd);
                }
                20 => {
                    let _ = vs.decrypter().read_and_decrypt_client_header(&mut rd);
                }
                22 => {
                    let mut d = rng.bytes(if big { n * 77 } else { n * 7 });
                    vc.decrypt(&mut d)
                }
                23 => {
                    let mut d = rng.bytes(if big { n * 77 } else { n * 7 });
                    tc.decrypt(&mut d)
                }
                24 => {
                    let _ = vc.decrypt_client_header(a6);
                    let _ = vs.decrypt_server_header(a4);
                }
                25 => {
                    let _ = tc.decrypt_client_header(a6);
                    let _ = ts.decrypt_server_header(a4);
                }
                26 => {
                    // the replies a victim sends while the peer feeds it garbage
                    let mut d = rng.bytes(n);
                    vs.encrypt(&mut d);
                    let _ = vs.encrypt_server_header(junk[0] as u16 * 257, junk[1] as u16);
                    let _ = vc.encrypt_client_header(junk[2] as u16, junk[3] as u32);
                }
                27 => {
                    let mut d = rng.bytes(n);
                    ts.encrypt(&mut d);
                    let _ = ts.encrypt_server_header(junk[0] as u16 * 257, junk[1] as u16);
                    let _ = tc.encrypt_client_header(junk[2] as u16, junk[3] as u32);
                }
                28 => {
                    let _ = ws.encrypt_server_header(u32::from_le_bytes(a4) & 0x7FFFFF, junk[5] as u16).len();
                    let _ = wc.encrypt_client_header(junk[2] as u16, junk[3] as u32);
                }
                29 => {
                    let _ = vc.read_and_decrypt_client_header(&mut rd);
                    let _ = tc.read_and_decrypt_client_header(&mut rd);
                }
                _ => {
                    let _ = tc.decrypter().read_and_decrypt_server_header(&mut rd);
                }
            }
        });
        rep.ev(1);
        rep.cell(&[op as u64, (n == 0) as u64]);
        if let Err(e) = r {
            rep.violation(
                &format!("c14:panic:header_entry_point:{}", op),
                format!("header entry point {} panicked on arbitrary peer bytes: {} (trace {:?})", op, e, &trace[trace.len().saturating_sub(10)..]),
                replay,
            );
            return;
        }
    }
    rep.count("byte_soup_sequences", 1);
    rep.sample(format!("ops {:?}", &trace[..trace.len().min(20)]));
}

pub fn run(tier: &str, seed: u64) -> Rep {
    let mut total = Rep::new();
    total.rule = "header byte soup".to_string();
    let (n, ops): (usize, usize) = match tier {
        "quick" => (100_000, 300),
        "thorough" => (1_000_000, 300),
        _ => (1, 40),
    };
    let shards = if tier == "miri" { 1 } else { 64 };
    let r = par(shards, if tier == "miri" { 1 } else { threads() }, |sh| {
        let mut rep = Rep::new();
        for i in 0..(n + shards - 1) / shards {
            soup(&mut rep, seed.wrapping_mul(1_000_003).wrapping_add((sh * 100_000 + i) as u64), ops);
        }
        rep
    });
    total.merge(r);
    total
}

pub fn replay(args: &[String]) -> Rep {
    let mut rep = Rep::new();
    if args.len() >= 3 && args[0] == "soup" {
        soup(&mut rep, args[1].parse().unwrap_or(0), args[2].parse().unwrap_or(300));
    }
    rep
}
