//! C18 — matrix-card proofs match what a user reads off the printed card.
use crate::util::*;
use wow_srp::matrix_card::{verify_matrix_card_hash, MatrixCard, MatrixCardVerifier};

/// HMAC-SHA1 keyed by MD5(seed_LE | K) over the RC4(MD5)-encrypted digits.
pub fn model_proof(seed: u64, k: &[u8; 40], digits: &[u8]) -> [u8; 20] {
    let mut buf = Vec::with_capacity(48);
    buf.extend_from_slice(&seed.to_le_bytes());
    buf.extend_from_slice(k);
    let key = md5::compute(&buf).0;
    let mut rc4 = ModelRc4::new(&key);
    let mut enc = digits.to_vec();
    rc4.xor(&mut enc);
    hmac_sha1(&key, &[&enc])
}

pub fn self_check() -> Result<u64, String> {
    // the two real-client vectors of the repository (all-zero digits)
    const K1: [u8; 40] = [
        46, 167, 52, 11, 179, 156, 220, 26, 87, 175, 253, 222, 115, 66, 233, 19, 167, 238, 19, 84, 138, 175, 136, 247, 241, 239, 119, 140, 15,
        202, 125, 85, 137, 178, 159, 127, 134, 58, 46, 126,
    ];
    const E1: [u8; 20] = [241, 196, 101, 128, 135, 11, 160, 192, 252, 108, 209, 242, 49, 157, 119, 131, 135, 191, 181, 153];
    if model_proof(0, &K1, &[0, 0]) != E1 {
        return Err("matrix-card proof model disagrees with the real 3.3.5 client vector".into());
    }
    const K2: [u8; 40] = [
        102, 94, 221, 27, 188, 90, 39, 16, 200, 68, 41, 48, 224, 105, 1, 102, 18, 212, 59, 119, 207, 76, 237, 37, 240, 225, 148, 192, 63, 31,
        65, 98, 142, 197, 217, 88, 34, 85, 72, 158,
    ];
    const E2: [u8; 20] = [193, 75, 79, 43, 182, 117, 141, 123, 100, 155, 172, 137, 139, 67, 215, 195, 187, 55, 30, 231];
    if model_proof(14574472801782155463, &K2, &[0, 0, 0, 0, 0, 0]) != E2 {
        return Err("matrix-card proof model disagrees with the real 3.3.5 multi-challenge vector".into());
    }
    Ok(2)
}

fn make_data(rng: &mut Rng, dc: usize, cells: usize) -> Vec<u8> {
    let mut data = Vec::with_capacity(dc * cells);
    for i in 0..cells {
        if dc >= 3 {
            // unique by construction: decimal digits of i, zero padded
            let s = format!("{:0width$}", i, width = dc);
            data.extend(s.bytes().map(|b| b - b'0'));
        } else {
            for _ in 0..dc {
                data.push(rng.below(10) as u8);
            }
        }
    }
    data
}

#[allow(clippy::too_many_arguments)]
fn one_shape(rep: &mut Rep, rng: &mut Rng, w: u8, h: u8, dc: u8, counts: &[u8], deep_rounds: bool) {
    let cells = w as usize * h as usize;
    let replay = || format!("shape {} {} {}", w, h, dc);
    let from_new = rng.chance(1, 3);
    let data = if from_new {
        // a card whose digits the library draws itself; its geometry and size must be what was asked for
        match guard(|| MatrixCard::new(dc, h, w)) {
            Ok(c) => {
                rep.ev(1);
                let want = dc as usize * cells;
                if c.width() != w || c.height() != h || c.digit_count() != dc || c.data().len() != want || MatrixCard::get_matrix_card_size(dc, h, w) != want {
                    rep.violation(
                        "c18:new_card_geometry",
                        format!("MatrixCard::new(digit_count={}, height={}, width={}) has width {} height {} digit_count {} and {} digits (size fn {})", dc, h, w, c.width(), c.height(), c.digit_count(), c.data().len(), MatrixCard::get_matrix_card_size(dc, h, w)),
                        replay(),
                    );
                    return;
                }
                if c.data().iter().any(|d| *d > 9) {
                    rep.violation("c18:new_card_digit_range", "a freshly generated card contains a digit above 9".into(), replay());
                    return;
                }
                rep.count("cards_from_new", 1);
                c.data().to_vec()
            }
            Err(e) => {
                rep.violation("c18:panic:new", e, replay());
                return;
            }
        }
    } else {
        make_data(rng, dc as usize, cells)
    };
    let card = match guard(|| MatrixCard::from_data(dc, h, w, data.clone())) {
        Ok(Some(c)) => c,
        Ok(None) => {
            rep.violation("c18:from_data_refused", format!("from_data({}, h={}, w={}, {} digits) returned None", dc, h, w, data.len()), replay());
            return;
        }
        Err(e) => {
            rep.violation("c18:panic:from_data", e, replay());
            return;
        }
    };
    if rng.chance(1, 8) {
        rep.ev(2);
        let mut longer = data.clone();
        longer.push(1);
        let shorter = data[..data.len().saturating_sub(1)].to_vec();
        let a = guard(|| MatrixCard::from_data(dc, h, w, longer).is_some());
        let b = guard(|| MatrixCard::from_data(dc, h, w, shorter).is_some());
        // not part of the property statement: recorded as information only
        if a != Ok(false) || (b != Ok(false) && !data.is_empty()) {
            rep.count("info_from_data_accepted_wrong_length", 1);
        } else {
            rep.count("info_from_data_refused_wrong_length", 1);
        }
    }
    // printing order
    let printed: Vec<String> = match guard(|| card.to_printer().collect::<Vec<String>>()) {
        Ok(p) => p,
        Err(e) => {
            rep.violation("c18:panic:to_printer", e, replay());
            return;
        }
    };
    rep.ev(1);
    if printed.len() != cells {
        rep.violation("c18:printed_cell_count", format!("{} cells printed for a {}x{} card", printed.len(), w, h), replay());
        return;
    }
    let printed_digits: Vec<Vec<u8>> = printed.iter().map(|s| s.bytes().map(|b| b.wrapping_sub(b'0')).collect()).collect();
    for (i, p) in printed_digits.iter().enumerate() {
        if p[..] != data[i * dc as usize..(i + 1) * dc as usize] {
            rep.violation("c18:printing_order", format!("printed cell {} is {:?}, card data there is {:?}", i, p, &data[i * dc as usize..(i + 1) * dc as usize]), replay());
            return;
        }
    }
    // the printer is an Iterator: every way of walking it gives the cells in printing order (column by column through
    // skip + step_by, a row with next() and then a jump with nth(), last / count, a clone taken half-way)
    {
        let walks = guard(|| {
            let mut out: Vec<(&'static str, Vec<String>, Vec<String>)> = Vec::new();
            let wu = w as usize;
            // columns
            let mut got = Vec::new();
            let mut want = Vec::new();
            for x in 0..wu.min(3) {
                got.extend(card.to_printer().skip(x).step_by(wu).take(cells + 2));
                want.extend(printed.iter().skip(x).step_by(wu).cloned());
            }
            out.push(("skip_step_by", got, want));
            // first row with next(), then nth jumps
            let mut p = card.to_printer();
            let mut got = Vec::new();
            let mut want = Vec::new();
            let mut pos = 0usize;
            for _ in 0..wu.min(cells) {
                if let Some(c) = p.next() {
                    got.push(c);
                }
                want.push(printed[pos].clone());
                pos += 1;
            }
            let mut jump = 0usize;
            while pos + jump < cells && got.len() < 64 {
                if let Some(c) = p.nth(jump) {
                    got.push(c);
                }
                want.push(printed[pos + jump].clone());
                pos += jump + 1;
                jump = (jump * 2 + 1) % 7;
            }
            // what is left, through a clone of the used printer
            let rest: Vec<String> = p.clone().collect();
            got.extend(rest);
            want.extend(printed[pos..].iter().cloned());
            out.push(("next_then_nth_then_clone", got, want));
            let mut p = card.to_printer();
            let _ = p.next();
            let n = p.count();
            out.push(("count_after_next", vec![n.to_string()], vec![cells.saturating_sub(1).to_string()]));
            out.push(("last", card.to_printer().last().into_iter().collect(), printed.last().cloned().into_iter().collect()));
            out
        });
        rep.ev(4);
        rep.count("printer_walks", 4);
        match walks {
            Err(e) => {
                rep.violation("c18:panic:printer_walk", e, replay());
                return;
            }
            Ok(ws) => {
                for (name, got, want) in ws {
                    if got != want {
                        rep.violation(
                            &format!("c18:printing_order:{}", name),
                            format!("walking the printer of a {}x{} card by {} gives {:?}..., the cells in printing order are {:?}...", w, h, name, &got[..got.len().min(6)], &want[..want.len().min(6)]),
                            replay(),
                        );
                        return;
                    }
                }
            }
        }
    }
    if card.width() != w || card.height() != h || card.digit_count() != dc || card.data() != &data[..] {
        rep.violation("c18:accessors", "width/height/digit_count/data accessors differ from the constructor arguments".into(), replay());
    }
    // every cell
    let base = card.data().as_ptr() as usize;
    for y in 0..h {
        for x in 0..w {
            rep.ev(1);
            let idx = y as usize * w as usize + x as usize;
            match guard(|| {
                let s = card.get_number_at_coordinates(x, y);
                (s.to_vec(), s.as_ptr() as usize)
            }) {
                Err(e) => {
                    rep.violation(&format!("c18:panic:lookup:dc{}", dc), format!("get_number_at_coordinates({}, {}) on a {}x{} card panicked: {}", x, y, w, h, e), replay());
                    return;
                }
                Ok((got, ptr)) => {
                    let want = &printed_digits[idx];
                    let off_ok = ptr < base || ptr >= base + data.len().max(1) || ptr - base == idx * dc as usize;
                    if &got != want || !off_ok {
                        rep.violation(
                            &format!("c18:cell_lookup_differs_from_printed_card:dc{}", dc),
                            format!(
                                "card {}x{} ({} digits per cell): get_number_at_coordinates(x={}, y={}) returned {:?} (data offset {}), the cell printed at row {} column {} is {:?} (offset {})",
                                w, h, dc, x, y, got, ptr.wrapping_sub(base), y, x, want, idx * dc as usize
                            ),
                            replay(),
                        );
                        return;
                    }
                }
            }
        }
    }
    rep.count("cells_compared", cells as u64);
    // challenges
    for &count in counts {
        if count == 0 || count as usize > cells {
            continue;
        }
        let seed = match rng.below(6) {
            0 => 0u64,
            1 => u64::MAX,
            _ => rng.next(),
        };
        let k: [u8; 40] = rng.arr();
        let creplay = || format!("challenge {} {} {} {} {} {}", w, h, dc, count, seed, hex(&k));
        if cells < 255 && rng.chance(1, 60) {
            // a sibling call with more challenges than the card has cells fails first on this thread (whatever it does - it
            // panics on the reference tree - is not judged: such a challenge is outside the property); nothing may stay behind
            let over = (cells + 1 + rng.below(3) as usize).min(255) as u8;
            let _ = guard(|| {
                let mut v = MatrixCardVerifier::new(over, h, seed ^ 0x55, w, &k);
                v.get_matrix_coordinates(0)
            });
            let _ = guard(|| verify_matrix_card_hash(&card, over, seed ^ 0x55, &k, &[0u8; 20]));
            rep.count("contained_failing_sibling_challenges", 1);
        }
        let mut v = match guard(|| MatrixCardVerifier::new(count, h, seed, w, &k)) {
            Ok(v) => v,
            Err(e) => {
                rep.violation("c18:panic:verifier_new", e, creplay());
                continue;
            }
        };
        let mut coords: Vec<(u8, u8)> = Vec::new();
        let mut bad = false;
        let last_round: u16 = if deep_rounds { 255 } else { (count as u16 + 2).min(255) };
        for round in 0..=last_round {
            let round = round as u8;
            rep.ev(1);
            match guard(|| v.get_matrix_coordinates(round)) {
                Err(e) => {
                    rep.violation(
                        &format!("c18:panic:coordinates:{}", if round == count { "round_eq_count" } else if round > count { "round_gt_count" } else { "round_lt_count" }),
                        format!("get_matrix_coordinates({}) with challenge_count {} on a {}x{} card panicked: {}", round, count, w, h, e),
                        creplay(),
                    );
                    bad = true;
                    break;
                }
                Ok(c) => {
                    if round < count {
                        match c {
                            Some((x, y)) if x < w && y < h => {
                                if coords.contains(&(x, y)) {
                                    rep.violation("c18:coordinates_repeat", format!("round {} repeats coordinates ({}, {})", round, x, y), creplay());
                                    bad = true;
                                }
                                coords.push((x, y));
                            }
                            other => {
                                rep.violation("c18:coordinates_off_card", format!("round {} of {} gave {:?} on a {}x{} card", round, count, other, w, h), creplay());
                                bad = true;
                            }
                        }
                    } else if c.is_some() {
                        rep.violation("c18:coordinates_for_round_out_of_range", format!("round {} (challenge_count {}) gave {:?}, expected None", round, count, c), creplay());
                        bad = true;
                    }
                }
            }
            if bad {
                break;
            }
        }
        if bad {
            continue;
        }
        // the rounds asked again on the same object in another order (a client that previews all cells and then walks through
        // them again), and the same challenge built on a fresh thread (the server's side of the same login): same cells
        {
            let mut order: Vec<u8> = (0..count).rev().collect();
            for _ in 0..count.min(12) {
                order.push(rng.below(count as u64) as u8);
            }
            for r in order {
                rep.ev(1);
                match guard(|| v.get_matrix_coordinates(r)) {
                    Ok(c) if c == Some(coords[r as usize]) => {}
                    Ok(c) => {
                        rep.violation("c18:coordinates_change_when_asked_again", format!("round {} gave {:?} when first asked and {:?} when asked again after later rounds", r, coords[r as usize], c), creplay());
                        bad = true;
                        break;
                    }
                    Err(e) => {
                        rep.violation("c18:panic:coordinates:asked_again", e, creplay());
                        bad = true;
                        break;
                    }
                }
            }
            rep.count("rounds_asked_again_out_of_order", count as u64);
            if !bad && rng.chance(1, 4) {
                let kk = k;
                let other: Result<Vec<Option<(u8, u8)>>, String> = std::thread::scope(|sc| {
                    sc.spawn(move || guard(|| {
                        let mut v2 = MatrixCardVerifier::new(count, h, seed, w, &kk);
                        (0..count).map(|r| v2.get_matrix_coordinates(r)).collect::<Vec<_>>()
                    }))
                    .join()
                    .unwrap_or_else(|_| Err("thread died".to_string()))
                });
                rep.count("challenges_rebuilt_on_a_fresh_thread", 1);
                match other {
                    Ok(o) if o.iter().map(|c| c.unwrap_or((255, 255))).collect::<Vec<_>>() == coords => {}
                    Ok(o) => {
                        rep.violation("c18:coordinates_differ_between_threads", format!("the same challenge (seed, count, card geometry) gives {:?} on this thread and {:?} on a fresh thread", &coords[..coords.len().min(4)], &o[..o.len().min(4)]), creplay());
                        bad = true;
                    }
                    Err(e) => {
                        rep.violation("c18:panic:coordinates:fresh_thread", e, creplay());
                        bad = true;
                    }
                }
            }
        }
        if bad {
            continue;
        }
        // the user types what is printed at the challenged cells
        let mut typed: Vec<u8> = Vec::new();
        for (x, y) in &coords {
            typed.extend_from_slice(&printed_digits[*y as usize * w as usize + *x as usize]);
        }
        let proof = model_proof(seed, &k, &typed);
        // the library's own client-side path gives the same proof for the same digits
        rep.ev(1);
        let lib_proof = guard(|| {
            let mut c = MatrixCardVerifier::new(count, h, seed, w, &k);
            for d in &typed {
                c.enter_value(*d);
            }
            c.into_proof()
        });
        match lib_proof {
            Err(e) => rep.violation("c18:panic:enter_value", e, creplay()),
            Ok(p) => {
                if p != proof {
                    rep.violation("c18:proof_definition", format!("enter_value/into_proof gives {}, HMAC-SHA1_MD5(seed|K)(RC4(digits)) gives {}", hex(&p), hex(&proof)), creplay());
                }
            }
        }
        rep.ev(1);
        match guard(|| verify_matrix_card_hash(&card, count, seed, &k, &proof)) {
            Err(e) => rep.violation("c18:panic:verify", format!("verify_matrix_card_hash panicked: {}", e), creplay()),
            Ok(false) => rep.violation(
                &format!("c18:printed_digits_rejected:dc{}", dc),
                format!("card {}x{} dc={} count={}: the proof over the digits printed at the challenged cells {:?} is rejected by the server-side check", w, h, dc, count, &coords[..coords.len().min(4)]),
                creplay(),
            ),
            Ok(true) => {
                rep.count("honest_proofs_accepted", 1);
            }
        }
        // any other digit sequence is rejected
        let mut wrongs: Vec<(&str, Vec<u8>)> = Vec::new();
        {
            let mut t = typed.clone();
            let i = rng.below(t.len() as u64) as usize;
            t[i] = (t[i] + 1 + rng.below(9) as u8) % 10;
            wrongs.push(("one_digit_changed", t));
            let mut t = typed.clone();
            t.pop();
            wrongs.push(("digit_dropped", t));
            let mut t = typed.clone();
            t.push(rng.below(10) as u8);
            wrongs.push(("digit_added", t));
            if coords.len() >= 2 {
                let dcu = dc as usize;
                let mut t = typed.clone();
                let (a, b) = (0usize, coords.len() - 1);
                let ca: Vec<u8> = t[a * dcu..(a + 1) * dcu].to_vec();
                let cb: Vec<u8> = t[b * dcu..(b + 1) * dcu].to_vec();
                if ca != cb {
                    t[a * dcu..(a + 1) * dcu].copy_from_slice(&cb);
                    t[b * dcu..(b + 1) * dcu].copy_from_slice(&ca);
                    wrongs.push(("two_rounds_swapped", t));
                }
            }
        }
        for (name, t) in wrongs {
            if t == typed {
                continue;
            }
            let p = model_proof(seed, &k, &t);
            rep.ev(1);
            match guard(|| verify_matrix_card_hash(&card, count, seed, &k, &p)) {
                Err(e) => rep.violation("c18:panic:verify", e, creplay()),
                Ok(true) => rep.violation(&format!("c18:wrong_digits_accepted:{}", name), format!("a proof over a different digit sequence ({}) was accepted", name), creplay()),
                Ok(false) => {
                    rep.count("wrong_sequences_rejected", 1);
                }
            }
        }
        let mut pflip = proof;
        pflip[rng.below(20) as usize] ^= 1 << rng.below(8);
        rep.ev(1);
        if let Ok(true) = guard(|| verify_matrix_card_hash(&card, count, seed, &k, &pflip)) {
            rep.violation("c18:wrong_digits_accepted:proof_bitflip", "a proof with one bit changed was accepted".into(), creplay());
        }
        rep.cell(&[w as u64, h as u64, dc as u64, count as u64]);
    }
    rep.count("shapes", 1);
}

pub fn run(tier: &str, seed: u64) -> Rep {
    let mut total = Rep::new();
    total.rule = "cards built with from_data for every (width, height) with 1<=w*h<=255 and digit counts 1,2,3,4,8 (cells unique by construction \
for >=3 digits, compared by data offset otherwise): every cell lookup against the cell printed at y*width+x; challenge counts \
{1,2,3,cells-1,cells}: coordinates distinct and on the card for rounds < count, None (never a panic) for rounds count..=255; a model client \
typing the printed digits produces HMAC-SHA1_MD5(seed|K)(RC4(digits)) which the server-side check accepts; changed/dropped/added digits, \
swapped rounds and a flipped proof bit are rejected. distinct = (width, height, digit count, challenge count) cells"
        .to_string();
    let mut shapes: Vec<(u8, u8)> = Vec::new();
    for w in 1..=255u16 {
        for h in 1..=255u16 {
            if w * h <= 255 {
                shapes.push((w as u8, h as u8));
            }
        }
    }
    total.count("shapes_total", shapes.len() as u64);
    let dcs: &[u8] = if tier == "miri" { &[2] } else { &[1, 2, 3, 4, 8] };
    let stride = if tier == "miri" { 1 } else { 1 };
    let reps = match tier {
        "thorough" => 32,
        "quick" => 8,
        _ => 1,
    };
    let shapes_ref = &shapes;
    let r = par(64, threads(), |sh| {
        let mut rep = Rep::new();
        let mut rng = Rng::new(seed, 0x18000 + sh as u64);
        let mut i = sh * stride;
        while i < shapes_ref.len() {
            let (w, h) = shapes_ref[i];
            let cells = w as usize * h as usize;
            if tier == "miri" && cells > 6 {
                i += 64 * stride;
                continue;
            }
            for &dc in dcs {
                for rrep in 0..reps {
                    let mut counts: Vec<u8> = vec![1, 2, 3, (cells.saturating_sub(1)) as u8, cells as u8];
                    if rrep > 0 {
                        counts = vec![(1 + rng.below(cells as u64)) as u8, (1 + rng.below(cells as u64)) as u8];
                    }
                    counts.dedup();
                    one_shape(&mut rep, &mut rng, w, h, dc, &counts, tier != "miri" && (rrep == 0));
                }
            }
            if i == 0 {
                rep.sample(format!("card {}x{}: every cell, counts 1..cells, rounds 0..=255", w, h));
            }
            if i % 301 == 7 {
                rep.sample(format!("card w={} h={} digit_counts {:?}: all {} cells compared with the printed card", w, h, dcs, cells));
            }
            i += 64 * stride;
        }
        rep
    });
    total.merge(r);
    if tier != "miri" {
        total.exhaustive = Some(true);
        total.note("all 1457 (width, height) pairs with 1 <= w*h <= 255 x digit counts {1,2,3,4,8} x every cell".to_string());
    }
    total
}

pub fn replay(args: &[String]) -> Rep {
    let mut rep = Rep::new();
    let mut rng = Rng::new(1, 0x18fff);
    if args.len() >= 4 && (args[0] == "shape" || args[0] == "challenge") {
        let w: u8 = args[1].parse().unwrap_or(1);
        let h: u8 = args[2].parse().unwrap_or(1);
        let dc: u8 = args[3].parse().unwrap_or(2);
        let cells = w as usize * h as usize;
        let counts: Vec<u8> = if args[0] == "challenge" && args.len() >= 5 {
            vec![args[4].parse().unwrap_or(1)]
        } else {
            vec![1, 2, 3, cells.saturating_sub(1) as u8, cells as u8]
        };
        one_shape(&mut rep, &mut rng, w, h, dc, &counts, true);
    }
    rep
}
