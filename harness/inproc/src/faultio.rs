//! Readers and writers that fragment, interrupt and fail on purpose (C11, C14).
use std::io::{self, ErrorKind, Read, Write};

#[derive(Clone, Copy, Debug, PartialEq, Eq)]
pub enum Fail {
    None,
    Eof, // Ok(0)
    Kind(ErrorKind),
}

pub const FAIL_KINDS: [Fail; 6] = [
    Fail::Eof,
    Fail::Kind(ErrorKind::ConnectionReset),
    Fail::Kind(ErrorKind::WouldBlock),
    Fail::Kind(ErrorKind::TimedOut),
    Fail::Kind(ErrorKind::BrokenPipe),
    Fail::Kind(ErrorKind::Other),
];

/// Delivers `data[..avail]` in the fragments described by `cuts` (bit i set = a fragment ends after byte i),
/// optionally reporting `Interrupted` before every fragment, then fails with `fail` (or, with Fail::None,
/// keeps delivering the rest of `data` in one piece).
pub struct FragReader<'a> {
    pub data: &'a [u8],
    pub avail: usize,
    pub cuts: u32,
    pub interrupt: bool,
    pub fail: Fail,
    pub pos: usize,
    pub interrupted_now: bool,
    pub reads: u32,
    /// number of consecutive `Interrupted` results before every fragment when `interrupt` is set (default 1)
    pub storm: u32,
    pub storm_count: u32,
}

impl<'a> FragReader<'a> {
    pub fn new(data: &'a [u8], avail: usize, cuts: u32, interrupt: bool, fail: Fail) -> Self {
        Self { data, avail, cuts, interrupt, fail, pos: 0, interrupted_now: false, reads: 0, storm: 1, storm_count: 0 }
    }
}

impl Read for FragReader<'_> {
    fn read(&mut self, buf: &mut [u8]) -> io::Result<usize> {
        self.reads += 1;
        if buf.is_empty() {
            return Ok(0);
        }
        if self.interrupt && !self.interrupted_now {
            self.storm_count += 1;
            if self.storm_count >= self.storm {
                self.interrupted_now = true;
                self.storm_count = 0;
            }
            return Err(io::Error::new(ErrorKind::Interrupted, "injected interruption"));
        }
        self.interrupted_now = false;
        if self.pos >= self.avail {
            return match self.fail {
                Fail::None => {
                    // deliver whatever is left in one piece
                    let n = (self.data.len() - self.pos).min(buf.len());
                    buf[..n].copy_from_slice(&self.data[self.pos..self.pos + n]);
                    self.pos += n;
                    Ok(n)
                }
                Fail::Eof => Ok(0),
                Fail::Kind(k) => Err(io::Error::new(k, "injected failure")),
            };
        }
        // fragment: from pos up to and including the next cut (or avail)
        let mut end = self.pos;
        loop {
            end += 1;
            if end >= self.avail || (self.cuts >> (end - 1)) & 1 == 1 {
                break;
            }
        }
        let n = (end - self.pos).min(buf.len());
        buf[..n].copy_from_slice(&self.data[self.pos..self.pos + n]);
        self.pos += n;
        Ok(n)
    }
}

/// Accepts `accept` bytes in short writes described by `cuts`, optionally interrupted, then fails.
pub struct FragWriter {
    pub sink: Vec<u8>,
    pub accept: usize,
    pub cuts: u32,
    pub interrupt: bool,
    pub fail: Fail,
    pub interrupted_now: bool,
    pub storm: u32,
    pub storm_count: u32,
}

impl FragWriter {
    pub fn new(accept: usize, cuts: u32, interrupt: bool, fail: Fail) -> Self {
        Self { sink: Vec::new(), accept, cuts, interrupt, fail, interrupted_now: false, storm: 1, storm_count: 0 }
    }
}

impl Write for FragWriter {
    fn write(&mut self, buf: &[u8]) -> io::Result<usize> {
        if buf.is_empty() {
            return Ok(0);
        }
        if self.interrupt && !self.interrupted_now {
            self.storm_count += 1;
            if self.storm_count >= self.storm {
                self.interrupted_now = true;
                self.storm_count = 0;
            }
            return Err(io::Error::new(ErrorKind::Interrupted, "injected interruption"));
        }
        self.interrupted_now = false;
        let pos = self.sink.len();
        if pos >= self.accept {
            return match self.fail {
                Fail::None => {
                    self.sink.extend_from_slice(buf);
                    Ok(buf.len())
                }
                Fail::Eof => Ok(0),
                Fail::Kind(k) => Err(io::Error::new(k, "injected failure")),
            };
        }
        let mut end = pos;
        loop {
            end += 1;
            if end >= self.accept || (self.cuts >> (end - 1)) & 1 == 1 {
                break;
            }
        }
        let n = (end - pos).min(buf.len());
        self.sink.extend_from_slice(&buf[..n]);
        Ok(n)
    }
    fn flush(&mut self) -> io::Result<()> {
        Ok(())
    }
}
