//! C07 (Vanilla), C08 (TBC), C09 (Wrath): stream-cipher monitors with online reference models.
use crate::objs;
use crate::faultio::{Fail, FragReader, FragWriter};
use crate::util::*;
use wow_srp::{tbc_header, vanilla_header, wrath_header};

/// A combined header-crypto object of the Vanilla/TBC kind.
pub trait AddObj: Clone + PartialEq + Send {
    fn enc(&mut self, d: &mut [u8]);
    fn dec(&mut self, d: &mut [u8]);
    /// header-sized chunks may go through the typed helpers (wire layout: size big-endian, opcode little-endian)
    fn enc_typed(&mut self, d: &mut [u8]);
    fn dec_typed(&mut self, d: &mut [u8]);
    /// ... or through the Write / Read wrappers with a sink that takes short writes / a source that delivers fragments
    /// (both optionally interrupted). false = the wrapper returned an error (C11 owns that verdict; the stream is abandoned).
    fn enc_io(&mut self, d: &mut [u8], cuts: u32, intr: bool) -> bool;
    fn dec_io(&mut self, d: &mut [u8], cuts: u32, intr: bool) -> bool;
    /// overwrite both halves in place (through the accessors) with Clone::clone_from of the halves of `src`
    fn clone_halves_from(&mut self, src: &mut Self);
}

macro_rules! typed_impl {
    () => {
        fn enc_typed(&mut self, d: &mut [u8]) {
            if d.len() == 4 {
                let o = self.encrypt_server_header(u16::from_be_bytes([d[0], d[1]]), u16::from_le_bytes([d[2], d[3]]));
                d.copy_from_slice(&o);
            } else if d.len() == 6 {
                let o = self.encrypt_client_header(u16::from_be_bytes([d[0], d[1]]), u32::from_le_bytes([d[2], d[3], d[4], d[5]]));
                d.copy_from_slice(&o);
            } else {
                self.encrypt(d)
            }
        }
        fn dec_typed(&mut self, d: &mut [u8]) {
            if d.len() == 4 {
                let h = self.decrypt_server_header([d[0], d[1], d[2], d[3]]);
                let s = h.size.to_be_bytes();
                let o = h.opcode.to_le_bytes();
                d.copy_from_slice(&[s[0], s[1], o[0], o[1]]);
            } else if d.len() == 6 {
                let h = self.decrypt_client_header([d[0], d[1], d[2], d[3], d[4], d[5]]);
                let s = h.size.to_be_bytes();
                let o = h.opcode.to_le_bytes();
                d.copy_from_slice(&[s[0], s[1], o[0], o[1], o[2], o[3]]);
            } else {
                self.decrypt(d)
            }
        }
        fn enc_io(&mut self, d: &mut [u8], cuts: u32, intr: bool) -> bool {
            let mut w = FragWriter::new(d.len(), cuts, intr, Fail::None);
            let r = if d.len() == 4 {
                self.write_encrypted_server_header(&mut w, u16::from_be_bytes([d[0], d[1]]), u16::from_le_bytes([d[2], d[3]]))
            } else if d.len() == 6 {
                self.write_encrypted_client_header(&mut w, u16::from_be_bytes([d[0], d[1]]), u32::from_le_bytes([d[2], d[3], d[4], d[5]]))
            } else {
                self.encrypt(d);
                return true;
            };
            if r.is_err() {
                return false;
            }
            // whatever reached the sink is what is on the wire (a short sink content shows up as a ciphertext difference)
            for (i, b) in d.iter_mut().enumerate() {
                *b = w.sink.get(i).copied().unwrap_or(!*b);
            }
            true
        }
        fn clone_halves_from(&mut self, src: &mut Self) {
            self.encrypter().clone_from(src.encrypter());
            self.decrypter().clone_from(src.decrypter());
        }
        fn dec_io(&mut self, d: &mut [u8], cuts: u32, intr: bool) -> bool {
            let src = d.to_vec();
            let mut rd = FragReader::new(&src, src.len(), cuts, intr, Fail::Eof);
            if d.len() == 4 {
                match self.read_and_decrypt_server_header(&mut rd) {
                    Ok(h) => {
                        let s = h.size.to_be_bytes();
                        let o = h.opcode.to_le_bytes();
                        d.copy_from_slice(&[s[0], s[1], o[0], o[1]]);
                    }
                    Err(_) => return false,
                }
            } else if d.len() == 6 {
                match self.read_and_decrypt_client_header(&mut rd) {
                    Ok(h) => {
                        let s = h.size.to_be_bytes();
                        let o = h.opcode.to_le_bytes();
                        d.copy_from_slice(&[s[0], s[1], o[0], o[1], o[2], o[3]]);
                    }
                    Err(_) => return false,
                }
            } else {
                self.decrypt(d);
            }
            true
        }
    };
}
impl AddObj for vanilla_header::HeaderCrypto {
    fn enc(&mut self, d: &mut [u8]) {
        self.encrypt(d)
    }
    fn dec(&mut self, d: &mut [u8]) {
        self.decrypt(d)
    }
    typed_impl!();
}
impl AddObj for tbc_header::HeaderCrypto {
    fn enc(&mut self, d: &mut [u8]) {
        self.encrypt(d)
    }
    fn dec(&mut self, d: &mut [u8]) {
        self.decrypt(d)
    }
    typed_impl!();
}

pub struct AddKind<O: AddObj> {
    pub prop: &'static str,
    pub period: usize,
    pub model_key: fn(&[u8; 40]) -> Vec<u8>,
    pub pair: fn([u8; 40]) -> (O, O),
}

pub fn vanilla_kind() -> AddKind<vanilla_header::HeaderCrypto> {
    AddKind { prop: "c07", period: 40, model_key: |k| k.to_vec(), pair: objs::vanilla_pair }
}
pub fn tbc_kind() -> AddKind<tbc_header::HeaderCrypto> {
    AddKind { prop: "c08", period: 20, model_key: |k| tbc_key(k).to_vec(), pair: objs::tbc_pair }
}

/// Objects of the *other* expansions are created and used on this thread in between (the order in which modules are used
/// in a process must not matter).
pub fn other_module_noise(rng: &mut Rng) {
    let k: [u8; 40] = rng.arr();
    let nn = 1 + rng.below(9) as usize;
    let mut d = rng.bytes(nn);
    match rng.below(3) {
        0 => {
            let (mut c, mut s) = objs::vanilla_pair(k);
            c.encrypt(&mut d);
            s.decrypt(&mut d);
        }
        1 => {
            let (mut c, mut s) = objs::tbc_pair(k);
            c.encrypt(&mut d);
            s.decrypt(&mut d);
        }
        _ => {
            let (mut c, mut s) = objs::wrath_pair(k);
            c.encrypt(&mut d);
            s.decrypt(&mut d);
            let _ = s.encrypt_server_header(0x8123, 0x1ee).len();
        }
    }
}

/// Keys made of the same bytes / words as `base` in another order, and keys whose differences cancel under XOR or
/// addition (a fingerprint or folded comparison of the key cannot tell them apart).
pub fn permuted_keys(base: &[u8; 40], rng: &mut Rng) -> Vec<[u8; 40]> {
    let mut out = Vec::new();
    let (a, b) = (rng.below(5) as usize, rng.below(5) as usize);
    if a != b {
        let mut k = *base;
        for i in 0..8 {
            k.swap(a * 8 + i, b * 8 + i);
        }
        out.push(k); // two aligned 8-byte words exchanged
    }
    let mut k = *base;
    k.rotate_left(8);
    out.push(k);
    let mut k = *base;
    k.rotate_left(4);
    out.push(k);
    let mut k = *base;
    k.reverse();
    out.push(k);
    // same mask applied to two bytes 8 (and 4) apart
    let mut k = *base;
    let p = rng.below(32) as usize;
    let m = 1u8 << rng.below(8);
    k[p] ^= m;
    k[p + 8] ^= m;
    out.push(k);
    let mut k = *base;
    let p = rng.below(36) as usize;
    k[p] ^= m;
    k[p + 4] ^= m;
    out.push(k);
    // +1 / -1 on two bytes (sum preserved)
    let mut k = *base;
    let (p, q) = (rng.below(40) as usize, rng.below(40) as usize);
    if p != q {
        k[p] = k[p].wrapping_add(1);
        k[q] = k[q].wrapping_sub(1);
        out.push(k);
    }
    out
}

/// Feed `data` through `f` in chunks drawn from the menu; returns number of calls and empty calls.
fn chunked(r: &mut Rng, data: &mut [u8], mut f: impl FnMut(&mut [u8])) -> (u64, u64) {
    let mut off = 0;
    let mut calls = 0;
    let mut empty = 0;
    let n = data.len();
    while off < n {
        let l = chunk_len(r, n - off);
        if l == 0 {
            empty += 1;
        }
        f(&mut data[off..off + l]);
        off += l;
        calls += 1;
    }
    // trailing empty call now and then
    if r.chance(1, 4) {
        f(&mut data[n..n]);
        calls += 1;
        empty += 1;
    }
    (calls, empty)
}

fn first_diff(a: &[u8], b: &[u8]) -> Option<usize> {
    a.iter().zip(b.iter()).position(|(x, y)| x != y).or(if a.len() != b.len() { Some(a.len().min(b.len())) } else { None })
}

/// One stream through sender (client object) and receiver (server object) with independent
/// partitions, compared with the model. `dir`: 0 = client encrypts / server decrypts, 1 = the reverse.
#[allow(clippy::too_many_arguments)]
fn add_stream<O: AddObj>(
    kind: &AddKind<O>,
    rep: &mut Rep,
    k: &[u8; 40],
    plain: &[u8],
    sender: &mut O,
    receiver: &mut O,
    model_enc: &mut ModelAdd,
    pseed: u64,
    class: &str,
) -> bool {
    let mut rs = Rng::new(pseed, 1);
    let mut rr = Rng::new(pseed, 2);
    let mut want = plain.to_vec();
    model_enc.enc(&mut want);
    let mut wire = plain.to_vec();
    let replay = format!("stream {} {} {}", hex(k), pseed, plain.len());
    if pseed % 7 == 3 {
        // both ends are moved into objects that were in use for another connection (another key, another position): an
        // in-place overwrite through Clone::clone_from, as Vec::clone_from / Option::clone_from / pooled objects do
        let r = guard(|| {
            let mut k2 = *k;
            if (pseed / 7) % 4 < 2 {
                k2.reverse();
                k2[0] ^= 0x5a;
            } // else: the target is an earlier, used state of the same connection (same session key)
            let (mut o1, mut o2) = (kind.pair)(k2);
            let mut junk = [0x33u8; 23];
            o1.enc(&mut junk);
            o1.dec(&mut junk);
            o2.enc(&mut junk);
            o2.dec(&mut junk);
            if pseed % 14 == 3 {
                o1.clone_from(sender);
                o2.clone_from(receiver);
            } else {
                o1.clone_halves_from(sender);
                o2.clone_halves_from(receiver);
            }
            let same = o1 == *sender && o2 == *receiver;
            *sender = o1;
            *receiver = o2;
            same
        });
        rep.count("objects_overwritten_in_place_by_clone_from", 2);
        match r {
            Ok(true) => {}
            // `==` may look at scratch fields; what counts is how the copy behaves from here on (compared with the model below)
            Ok(false) => rep.count("info_clone_from_copy_not_eq_to_source", 1),
            Err(e) => {
                rep.violation(&format!("{}:panic:clone_from", kind.prop), e, replay);
                return false;
            }
        }
    }
    // header-sized chunks take turns: raw call, typed helper, Write wrapper with a sink that takes short writes
    let mut route = (pseed % 3) as u32;
    let mut io_err = 0u64;
    let mut io_calls = 0u64;
    let r = guard(|| {
        chunked(&mut rs, &mut wire, |c| {
            if c.len() == 4 || c.len() == 6 {
                route = (route + 1) % 3;
                if route == 1 {
                    return sender.enc_typed(c);
                }
                if route == 2 {
                    io_calls += 1;
                    let cuts = (pseed >> 7) as u32 ^ io_calls as u32;
                    if !sender.enc_io(c, cuts & 0x3f, cuts & 0x40 != 0) {
                        io_err += 1;
                    }
                    return;
                }
            }
            sender.enc(c)
        })
    });
    rep.count("headers_through_write_wrapper_with_short_writes", io_calls);
    if io_err > 0 {
        // an error for a sink that merely takes short writes: C11 decides that; nothing more can be said about this stream
        rep.count("info_write_wrapper_error_stream_abandoned", 1);
        return false;
    }
    let (calls, empty) = match r {
        Ok(x) => x,
        Err(e) => {
            rep.violation(&format!("{}:panic:encrypt", kind.prop), format!("encrypt panicked: {}", e), replay);
            return false;
        }
    };
    rep.count("encrypt_calls", calls);
    rep.count("empty_calls", empty);
    rep.count("bytes_compared_with_model", plain.len() as u64);
    if let Some(i) = first_diff(&wire, &want) {
        rep.violation(
            &format!("{}:ciphertext_differs_from_recurrence:{}", kind.prop, class),
            format!("ciphertext byte {} of a {}-byte stream is {:#04x}, the recurrence gives {:#04x} (key {}, partition seed {})", i, plain.len(), wire[i], want[i], hex(k), pseed),
            replay,
        );
        return false;
    }
    let mut back = wire.clone();
    let mut route2 = ((pseed / 3) % 3) as u32;
    let mut io_err2 = 0u64;
    let mut io_calls2 = 0u64;
    let r = guard(|| {
        chunked(&mut rr, &mut back, |c| {
            if c.len() == 4 || c.len() == 6 {
                route2 = (route2 + 1) % 3;
                if route2 == 1 {
                    return receiver.dec_typed(c);
                }
                if route2 == 2 {
                    io_calls2 += 1;
                    let cuts = (pseed >> 11) as u32 ^ io_calls2 as u32;
                    if !receiver.dec_io(c, cuts & 0x3f, cuts & 0x40 != 0) {
                        io_err2 += 1;
                    }
                    return;
                }
            }
            receiver.dec(c)
        })
    });
    rep.count("headers_through_read_wrapper_with_fragments", io_calls2);
    if io_err2 > 0 {
        rep.count("info_read_wrapper_error_stream_abandoned", 1);
        return false;
    }
    match r {
        Ok((calls, empty)) => {
            rep.count("decrypt_calls", calls);
            rep.count("empty_calls", empty);
        }
        Err(e) => {
            rep.violation(&format!("{}:panic:decrypt", kind.prop), format!("decrypt panicked: {}", e), replay);
            return false;
        }
    }
    if let Some(i) = first_diff(&back, plain) {
        rep.violation(
            &format!("{}:receiver_does_not_recover_plaintext:{}", kind.prop, class),
            format!("decrypted byte {} of a {}-byte stream is {:#04x}, sent {:#04x} (key {}, partition seed {})", i, plain.len(), back[i], plain[i], hex(k), pseed),
            replay,
        );
        return false;
    }
    true
}

/// Model-guided plaintext generator that walks the (position, previous, input) matrix.
struct Matrix {
    period: usize,
    seen: Vec<u64>,
    remaining: Vec<u16>, // [pos][prev]
    left: u64,
}

impl Matrix {
    fn new(period: usize) -> Self {
        Self { period, seen: vec![0; period * 256 * 256 / 64], remaining: vec![256; period * 256], left: (period * 65536) as u64 }
    }
    fn idx(&self, pos: usize, prev: u8, x: u8) -> usize {
        (pos * 256 + prev as usize) * 256 + x as usize
    }
    fn is_seen(&self, pos: usize, prev: u8, x: u8) -> bool {
        let i = self.idx(pos, prev, x);
        (self.seen[i / 64] >> (i % 64)) & 1 == 1
    }
    fn mark(&mut self, pos: usize, prev: u8, x: u8) {
        let i = self.idx(pos, prev, x);
        if (self.seen[i / 64] >> (i % 64)) & 1 == 0 {
            self.seen[i / 64] |= 1 << (i % 64);
            self.remaining[pos * 256 + prev as usize] -= 1;
            self.left -= 1;
        }
    }
    /// choose the next plaintext byte for encrypt-state (pos, prev) under `key`
    fn choose(&self, key: &[u8], pos: usize, prev: u8, r: &mut Rng) -> u8 {
        let np = (pos + 1) % self.period;
        let start = r.byte();
        let mut best: Option<(u8, u16)> = None;
        if self.remaining[pos * 256 + prev as usize] > 0 {
            for d in 0..=255u8 {
                let x = start.wrapping_add(d);
                if !self.is_seen(pos, prev, x) {
                    let c = (x ^ key[pos]).wrapping_add(prev);
                    let rem = self.remaining[np * 256 + c as usize];
                    if best.map_or(true, |(_, b)| rem > b) {
                        best = Some((x, rem));
                    }
                }
            }
            return best.unwrap().0;
        }
        for d in 0..=255u8 {
            let c = start.wrapping_add(d);
            let rem = self.remaining[np * 256 + c as usize];
            if best.map_or(true, |(_, b)| rem > b) {
                best = Some((c, rem));
            }
        }
        let c = best.unwrap().0;
        c.wrapping_sub(prev) ^ key[pos]
    }
}

pub fn run_add<O: AddObj>(kind: AddKind<O>, tier: &str, seed: u64) -> Rep {
    let mut total = Rep::new();
    total.rule = format!(
        "streams through real objects obtained via ProofSeed (client encrypts, server decrypts and vice versa) with independent \
random partitions on both ends (menu 0,1,2,3,4,6,39,40,41,79,80,81,255,256,257, random<=4096, one huge), every byte compared with \
the recurrence model keyed from the property statement; a model-guided generator walks the {}x256x256 (position, previous byte, \
input byte) matrix. distinct = distinct (position, previous, input) encrypt transitions observed + distinct decrypt transitions + \
distinct (key class, length class) stream cells",
        kind.period
    );
    let period = kind.period;
    // ---- 1. transition matrix with one random key (single thread, model-guided)
    let matrix_budget: u64 = match tier {
        "quick" => (period as u64) * 65536 * 3 / 2,
        "thorough" => (period as u64) * 65536 * 40,
        _ => 0,
    };
    let kind_ref = &kind;
    let nmat = if tier == "thorough" { 6 } else { 1 };
    let parts = par(nmat, nmat, |which| {
        let mut rep = Rep::new();
        if matrix_budget > 0 {
            let mut rng = Rng::new(seed, 0x700 + period as u64 + 1000 * which as u64);
            let k: [u8; 40] = match which {
                1 => [0u8; 40],
                2 => [0xff; 40],
                3 => {
                    let mut k = [0u8; 40];
                    for (p, b) in k.iter_mut().enumerate() {
                        *b = (p * 7 + 3) as u8;
                    }
                    k
                }
                _ => rng.arr(),
            };
            let mkey = (kind_ref.model_key)(&k);
            let (mut client, mut server) = (kind_ref.pair)(k);
            let mut mx = Matrix::new(period);
            let mut dmx = Matrix::new(period);
            let mut model = ModelAdd::new(&mkey);
            let mut produced = 0u64;
            let block = 1usize << 16;
            let mut okay = true;
            while mx.left > 0 && produced < matrix_budget && okay {
                let mut plain = Vec::with_capacity(block);
                let mut sim = model.clone();
                for _ in 0..block {
                    let (pos, prev) = (sim.pos, sim.prev);
                    let x = mx.choose(&mkey, pos, prev, &mut rng);
                    mx.mark(pos, prev, x);
                    let c = sim.enc_byte(x);
                    dmx.mark(pos, prev, c);
                    plain.push(x);
                    if mx.left == 0 {
                        break;
                    }
                }
                produced += plain.len() as u64;
                let ps = rng.next();
                okay = add_stream(kind_ref, &mut rep, &k, &plain, &mut client, &mut server, &mut model, ps, "matrix_walk");
                rep.ev(1);
            }
            let total_cells = (period * 65536) as u64;
            rep.count("matrix_encrypt_transitions_observed", total_cells - mx.left);
            rep.count("matrix_decrypt_transitions_observed", total_cells - dmx.left);
            rep.count("matrix_transitions_total_per_direction", total_cells);
            rep.count("matrix_walk_bytes", produced);
            rep.distinct_extra += (total_cells - mx.left) + (total_cells - dmx.left);
            if okay {
                if mx.left == 0 && dmx.left == 0 {
                    rep.exhaustive = Some(true);
                    rep.note(format!("all {} (position, previous, input) transitions of both directions were driven through the real objects", total_cells));
                } else {
                    rep.exhaustive = Some(false);
                    let pct = 100.0 * (total_cells - mx.left) as f64 / total_cells as f64;
                    if tier == "thorough" || (tier == "quick" && pct < 99.0) {
                        rep.inconc(format!("transition matrix only {:.2}% covered within the byte budget", pct));
                    } else {
                        rep.note(format!("transition matrix {:.3}% covered (thorough tier drives 100%)", pct));
                    }
                }
            }
            // more than 2^32 bytes through one connection (thorough tier, one key)
            if tier == "thorough" && which == 0 && okay {
                let block = 64usize << 20;
                let mut done: u64 = 0;
                while done < (1u64 << 32) + (3 * block as u64) && okay {
                    let plain = rng.bytes(block);
                    let ps = rng.next();
                    okay = add_stream(kind_ref, &mut rep, &k, &plain, &mut client, &mut server, &mut model, ps, "beyond_2^32_bytes");
                    done += block as u64;
                    rep.ev(1);
                }
                rep.count("bytes_through_one_connection_max", produced + done);
                if okay {
                    rep.note("one connection carried more than 2^32 bytes in one direction".to_string());
                    rep.cell(&[9, 32]);
                }
            }
            // one single call with more than 2^31 bytes (thorough tier, second key): a length that no longer fits a signed
            // 32-bit quantity, followed by ordinary traffic on the same connection
            if tier == "thorough" && which == 1 && okay {
                let n = (1usize << 31) + 4096 + rng.below(64) as usize;
                let plain = rng.bytes(n);
                let mut want = plain.clone();
                model.enc(&mut want);
                let mut wire = plain.clone();
                let r = guard(|| {
                    client.enc(&mut wire);
                });
                rep.ev(1);
                let replay = format!("stream {} 0 {}", hex(&k), n);
                if let Err(e) = r {
                    rep.violation(&format!("{}:panic:encrypt", kind_ref.prop), format!("one call with {} bytes panicked: {}", n, e), replay);
                    okay = false;
                } else if let Some(i) = first_diff(&wire, &want) {
                    rep.violation(&format!("{}:ciphertext_differs_from_recurrence:single_call_above_2^31", kind_ref.prop), format!("byte {} of one {}-byte call differs from the recurrence", i, n), replay);
                    okay = false;
                } else {
                    drop(want);
                    let r = guard(|| {
                        server.dec(&mut wire);
                    });
                    if r.is_err() || wire != plain {
                        rep.violation(&format!("{}:receiver_does_not_recover_plaintext:single_call_above_2^31", kind_ref.prop), format!("one decrypt call with {} bytes does not recover the plaintext", n), replay);
                        okay = false;
                    }
                }
                drop(wire);
                drop(plain);
                if okay {
                    // the connection goes on
                    let more = rng.bytes(300);
                    let ps = rng.next();
                    okay = add_stream(kind_ref, &mut rep, &k, &more, &mut client, &mut server, &mut model, ps, "after_single_call_above_2^31");
                    rep.count("single_calls_above_2^31_bytes", 1);
                    rep.cell(&[9, 31]);
                }
            }
            // the same connection also runs server -> client
            let back: Vec<u8> = rng.bytes(5000);
            let mut m2 = ModelAdd::new(&mkey);
            add_stream(kind_ref, &mut rep, &k, &back, &mut server, &mut client, &mut m2, rng.next(), "reverse_direction");
            rep.ev(1);
        }
        rep
    });
    total.merge(parts);
    // ---- 2. many keys x random streams x independent partitions (all cores)
    let nkeys: u64 = match tier {
        "quick" => 24000,
        "thorough" => 400_000,
        _ => 6,
    };
    let long_streams: u64 = match tier {
        "quick" => 6,
        "thorough" => 48,
        _ => 0,
    };
    let shards = if tier == "miri" { 2usize } else { 64usize };
    let r = par(shards, threads(), |sh| {
        let mut rep = Rep::new();
        let mut rng = Rng::new(seed, 0x7100 + sh as u64 + ((period as u64) << 32));
        let per = (nkeys as usize + shards - 1) / shards;
        if nkeys >= 100 && sh % 3 != 0 {
            other_module_noise(&mut rng);
        }
        for i in 0..per {
            let (k, kclass): ([u8; 40], u64) = match (sh * per + i) % 16 {
                0 => ([0u8; 40], 0),
                1 => ([0xff; 40], 1),
                2..=8 => {
                    // seven keys arranged so that every byte value occurs at some position
                    let j = ((sh * per + i) % 16 - 2) as usize;
                    let mut k = [0u8; 40];
                    for (p, b) in k.iter_mut().enumerate() {
                        *b = ((j * 40 + p) % 256) as u8;
                    }
                    (k, 2)
                }
                _ => (rng.arr(), 3),
            };
            let mkey = (kind_ref.model_key)(&k);
            if nkeys >= 100 && rng.chance(1, 4) {
                other_module_noise(&mut rng);
                rep.count("other_module_noise", 1);
            }
            let (mut client, mut server) = match guard(|| (kind_ref.pair)(k)) {
                Ok(p) => p,
                Err(e) => {
                    rep.violation(&format!("{}:panic:construct", kind_ref.prop), format!("constructing the crypto objects panicked: {}", e), format!("stream {} 0 0", hex(&k)));
                    continue;
                }
            };
            let mut m_c2s = ModelAdd::new(&mkey);
            let mut m_s2c = ModelAdd::new(&mkey);
            // several messages on one connection, both directions interleaved
            let msgs = 1 + rng.below(4);
            for _ in 0..msgs {
                let len = match rng.below(10) {
                    0 => rng.below(8) as usize,
                    1..=5 => rng.below(200) as usize,
                    6..=8 => rng.below(if nkeys < 100 { 120 } else { 3000 }) as usize,
                    _ => rng.below(if nkeys < 100 { 260 } else { 20000 }) as usize,
                };
                let plain = rng.bytes(len);
                if nkeys >= 100 && rng.chance(1, 6) {
                    // objects of the other expansions are created and used while this connection is alive
                    other_module_noise(&mut rng);
                    rep.count("other_module_noise_mid_connection", 1);
                }
                let lclass = if len < 8 { 0 } else if len <= period { 1 } else if len < 257 { 2 } else { 3 };
                let ok = if rng.chance(1, 2) {
                    add_stream(kind_ref, &mut rep, &k, &plain, &mut client, &mut server, &mut m_c2s, rng.next(), "random_key")
                } else {
                    add_stream(kind_ref, &mut rep, &k, &plain, &mut server, &mut client, &mut m_s2c, rng.next(), "random_key")
                };
                rep.ev(1);
                rep.cell(&[kclass, lclass]);
                if !ok {
                    break;
                }
            }
            rep.count("session_keys", 1);
            if i == 0 && sh == 0 {
                rep.sample(format!("key {} : {} messages, both directions, independent partitions", hex(&k), msgs));
            }
        }
        // related session keys, one after the other on this thread: keys that differ from a base key in one bit at an
        // early, middle or late byte (a derivation remembered under a partial key would show here)
        for _ in 0..(if nkeys >= 1000 { 6 } else if sh == 0 { 1 } else { 0 }) {
            let base: [u8; 40] = rng.arr();
            let mut fam: Vec<[u8; 40]> = vec![base];
            for pos in [0usize, 7, 8, 15, 16, 19, 20, 31, 32, 39] {
                if nkeys < 100 && pos % 8 != 7 {
                    continue;
                }
                let mut k2 = base;
                k2[pos] ^= 1 << rng.below(8);
                fam.push(k2);
            }
            if nkeys >= 100 {
                fam.extend(permuted_keys(&base, &mut rng));
            }
            fam.push(base);
            for k in fam {
                let mkey = (kind_ref.model_key)(&k);
                let (mut client, mut server) = match guard(|| (kind_ref.pair)(k)) {
                    Ok(p) => p,
                    Err(e) => {
                        rep.violation(&format!("{}:panic:construct", kind_ref.prop), e, format!("stream {} 0 0", hex(&k)));
                        continue;
                    }
                };
                let mut m1 = ModelAdd::new(&mkey);
                let mut m2 = ModelAdd::new(&mkey);
                let n1 = 24 + rng.below(60) as usize;
                let plain = rng.bytes(n1);
                let ps = rng.next();
                add_stream(kind_ref, &mut rep, &k, &plain, &mut client, &mut server, &mut m1, ps, "related_keys");
                let plain2 = rng.bytes(30);
                let ps2 = rng.next();
                add_stream(kind_ref, &mut rep, &k, &plain2, &mut server, &mut client, &mut m2, ps2, "related_keys");
                rep.ev(2);
                rep.count("related_key_objects", 1);
                rep.cell(&[7, 7]);
            }
        }
        // headers whose size field is tiny (0..7: smaller than the opcode field that it is said to include) or huge, through
        // the typed helpers and the Read wrappers in both roles: any size and opcode is a header
        if sh % 4 == 1 {
            let k: [u8; 40] = rng.arr();
            let mkey = (kind_ref.model_key)(&k);
            if let Ok((mut client, mut server)) = guard(|| (kind_ref.pair)(k)) {
                let mut m_c = ModelAdd::new(&mkey);
                let mut m_s = ModelAdd::new(&mkey);
                let mut okay = true;
                for size in [0u16, 1, 2, 3, 4, 5, 6, 7, 0xFFFF, 0x7FFF, 0x8000] {
                    for op in [0u32, 1, 0x1DC, 0xFFFF, 0x1_0000, 0xFFFF_FFFF] {
                        for route in 0..2 {
                            if !okay {
                                break;
                            }
                            // client header: 6 bytes client -> server
                            let s2 = size.to_be_bytes();
                            let o4 = op.to_le_bytes();
                            let plain6 = [s2[0], s2[1], o4[0], o4[1], o4[2], o4[3]];
                            let mut want = plain6;
                            m_c.enc(&mut want);
                            let r = guard(|| {
                                let mut w = plain6;
                                client.enc_typed(&mut w);
                                let mut back = w;
                                if route == 0 {
                                    server.dec_typed(&mut back);
                                } else {
                                    server.dec_io(&mut back, 0b10101, true);
                                }
                                (w, back)
                            });
                            rep.ev(1);
                            match r {
                                Ok((w, back)) if w == want && back == plain6 => {}
                                Ok(_) => {
                                    rep.violation(&format!("{}:tiny_or_huge_header:client_header", kind_ref.prop), format!("client header size={} opcode={:#x} through the typed helpers differs from the recurrence or is not recovered", size, op), format!("stream {} 0 6", hex(&k)));
                                    okay = false;
                                }
                                Err(e) => {
                                    rep.violation(&format!("{}:panic:typed_header", kind_ref.prop), format!("client header size={} opcode={:#x}: {}", size, op, e), format!("stream {} 0 6", hex(&k)));
                                    okay = false;
                                }
                            }
                            // server header: 4 bytes server -> client
                            let plain4 = [s2[0], s2[1], o4[0], o4[1]];
                            let mut want4 = plain4;
                            m_s.enc(&mut want4);
                            let r = guard(|| {
                                let mut w = plain4;
                                server.enc_typed(&mut w);
                                let mut back = w;
                                if route == 0 {
                                    client.dec_typed(&mut back);
                                } else {
                                    client.dec_io(&mut back, 0b101, false);
                                }
                                (w, back)
                            });
                            rep.ev(1);
                            match r {
                                Ok((w, back)) if w == want4 && back == plain4 => {}
                                Ok(_) => {
                                    rep.violation(&format!("{}:tiny_or_huge_header:server_header", kind_ref.prop), format!("server header size={} opcode={:#x} through the typed helpers differs from the recurrence or is not recovered", size, op), format!("stream {} 0 4", hex(&k)));
                                    okay = false;
                                }
                                Err(e) => {
                                    rep.violation(&format!("{}:panic:typed_header", kind_ref.prop), format!("server header size={} opcode={:#x}: {}", size, op, e), format!("stream {} 0 4", hex(&k)));
                                    okay = false;
                                }
                            }
                        }
                    }
                }
                rep.count("tiny_and_huge_headers_through_typed_helpers", 11 * 6 * 2 * 2);
                rep.cell(&[10, 10]);
            }
        }
        // a handful of session keys come back again and again on this thread, in changing order (reconnecting players):
        // every new connection is keyed by its own session key, whatever was connected before
        if nkeys >= 100 {
            let pool: Vec<[u8; 40]> = (0..7).map(|_| rng.arr()).collect();
            for visit in 0..(if nkeys >= 1000 { 120 } else { 20 }) {
                let k = pool[match visit % 5 {
                    0 => 0,
                    1 => 1,
                    2 => 0,
                    _ => rng.below(7) as usize,
                }];
                let mkey = (kind_ref.model_key)(&k);
                let (mut client, mut server) = match guard(|| (kind_ref.pair)(k)) {
                    Ok(p) => p,
                    Err(e) => {
                        rep.violation(&format!("{}:panic:construct", kind_ref.prop), e, format!("stream {} 0 0", hex(&k)));
                        break;
                    }
                };
                let mut m1 = ModelAdd::new(&mkey);
                let mut m2 = ModelAdd::new(&mkey);
                let pl = 24 + rng.below(20) as usize;
                let plain = rng.bytes(pl);
                let (ps, ps2) = (rng.next(), rng.next());
                let a = add_stream(kind_ref, &mut rep, &k, &plain, &mut client, &mut server, &mut m1, ps, "session_keys_coming_back");
                let b = add_stream(kind_ref, &mut rep, &k, &plain, &mut server, &mut client, &mut m2, ps2, "session_keys_coming_back");
                rep.ev(2);
                rep.count("connections_with_a_session_key_seen_before_on_the_thread", 1);
                if !(a && b) {
                    break;
                }
            }
            rep.cell(&[9, 9]);
        }
        // one connection used through very many tiny calls (more than 2^16 calls per direction)
        if sh % 16 == 3 && nkeys >= 1000 {
            let k: [u8; 40] = rng.arr();
            let mkey = (kind_ref.model_key)(&k);
            let (mut client, mut server) = (kind_ref.pair)(k);
            let mut m = ModelAdd::new(&mkey);
            let calls = 70_000usize;
            let mut bad = false;
            for c in 0..calls {
                let n = 1 + rng.below(6) as usize;
                let plain = rng.bytes(n);
                let mut want = plain.clone();
                m.enc(&mut want);
                let mut wire = plain.clone();
                client.enc(&mut wire);
                let mut back = wire.clone();
                server.dec(&mut back);
                if wire != want || back != plain {
                    rep.violation(
                        &format!("{}:many_small_calls", kind_ref.prop),
                        format!("call number {} of {} bytes on one long-lived connection: ciphertext or recovered plaintext wrong (key {})", c, n, hex(&k)),
                        format!("stream {} {} {}", hex(&k), c, n),
                    );
                    bad = true;
                    break;
                }
            }
            rep.ev(1);
            if !bad {
                rep.count("connections_with_70000_small_calls", 1);
                rep.cell(&[8, 8]);
            }
        }
        // long-running connections
        if (sh as u64) < long_streams {
            let k: [u8; 40] = rng.arr();
            let mkey = (kind_ref.model_key)(&k);
            let (mut client, mut server) = (kind_ref.pair)(k);
            let mut m = ModelAdd::new(&mkey);
            let len = if sh % 3 == 0 { 10_000_000 } else { 100_000 + rng.below(900_000) as usize };
            let len = if tier == "quick" && len > 2_000_000 { 2_000_000 } else { len };
            let plain = rng.bytes(len);
            add_stream(kind_ref, &mut rep, &k, &plain, &mut client, &mut server, &mut m, rng.next(), "long_stream");
            rep.ev(1);
            rep.count("long_streams", 1);
            rep.hist("long_stream_bytes", if len >= 10_000_000 { "1e7" } else if len >= 1_000_000 { "1e6+" } else { "1e5+" }, 1);
            rep.cell(&[9, len as u64 / 1_000_000]);
        }
        rep
    });
    total.merge(r);
    total
}

pub fn replay_add<O: AddObj>(kind: AddKind<O>, args: &[String]) -> Rep {
    let mut rep = Rep::new();
    if args.len() >= 4 && args[0] == "stream" {
        let kb = unhex(&args[1]);
        let mut k = [0u8; 40];
        k.copy_from_slice(&kb[..40]);
        let pseed: u64 = args[2].parse().unwrap_or(0);
        let len: usize = args[3].parse().unwrap_or(0);
        let mut rng = Rng::new(pseed, 99);
        let plain = rng.bytes(len);
        let (mut c, mut s) = (kind.pair)(k);
        let mut m = ModelAdd::new(&(kind.model_key)(&k));
        add_stream(&kind, &mut rep, &k, &plain, &mut c, &mut s, &mut m, pseed, "replay");
        rep.ev(1);
        rep.note("replay re-runs the key and partition seed with fresh plaintext of the recorded length on a fresh connection".to_string());
    }
    rep
}

// ---------------------------------------------------------------------------
// C09 Wrath

/// Header-shaped chunks of Wrath traffic take turns between the raw call, the typed helper and the Write / Read wrapper
/// (sink taking short writes, source delivering fragments, both now and then interrupted). `io_failed` is set when a
/// wrapper returns an error although the sink / source does not fail (C11 owns that verdict; the direction is abandoned).
struct WRoute {
    n: u32,
    salt: u32,
    io_calls: u64,
    typed_calls: u64,
    attempt_then_raw: u64,
    io_failed: bool,
}

impl WRoute {
    fn new(salt: u64) -> Self {
        Self { n: (salt % 3) as u32, salt: (salt >> 9) as u32, io_calls: 0, typed_calls: 0, attempt_then_raw: 0, io_failed: false }
    }
    fn next(&mut self) -> (u32, u32, bool) {
        self.n = (self.n + 1) % 3;
        let cuts = self.salt ^ self.n.wrapping_mul(0x9E37) ^ (self.io_calls as u32).wrapping_mul(7);
        (self.n, cuts & 0x3f, cuts & 0x40 != 0)
    }
    fn client_enc(&mut self, o: &mut wrath_header::ClientCrypto, c: &mut [u8]) {
        if c.len() != 6 || self.io_failed {
            return o.encrypt(c);
        }
        let (size, opcode) = (u16::from_be_bytes([c[0], c[1]]), u32::from_le_bytes([c[2], c[3], c[4], c[5]]));
        match self.next() {
            (1, _, _) => {
                self.typed_calls += 1;
                let h = o.encrypt_client_header(size, opcode);
                c.copy_from_slice(&h);
            }
            (2, cuts, intr) => {
                self.io_calls += 1;
                let mut w = FragWriter::new(6, cuts, intr, Fail::None);
                if o.write_encrypted_client_header(&mut w, size, opcode).is_err() {
                    self.io_failed = true;
                    return;
                }
                for (i, b) in c.iter_mut().enumerate() {
                    *b = w.sink.get(i).copied().unwrap_or(!*b);
                }
            }
            _ => o.encrypt(c),
        }
    }
    fn server_dec(&mut self, o: &mut wrath_header::ServerCrypto, c: &mut [u8]) {
        if c.len() != 6 || self.io_failed {
            return o.decrypt(c);
        }
        let put = |c: &mut [u8], size: u16, opcode: u32| {
            let (s, op) = (size.to_be_bytes(), opcode.to_le_bytes());
            c.copy_from_slice(&[s[0], s[1], op[0], op[1], op[2], op[3]]);
        };
        match self.next() {
            (1, _, _) => {
                self.typed_calls += 1;
                let h = o.decrypt_client_header([c[0], c[1], c[2], c[3], c[4], c[5]]);
                put(c, h.size, h.opcode);
            }
            (2, cuts, intr) => {
                self.io_calls += 1;
                let src = c.to_vec();
                let mut rd = FragReader::new(&src, 6, cuts, intr, Fail::Eof);
                match o.read_and_decrypt_client_header(&mut rd) {
                    Ok(h) => put(c, h.size, h.opcode),
                    Err(_) => self.io_failed = true,
                }
            }
            _ => o.decrypt(c),
        }
    }
    /// a chunk that has the shape of a server header: 4 bytes with the marker bit clear, or 5 bytes with it set
    fn server_shape(c: &[u8]) -> Option<(u32, u16)> {
        if c.len() == 4 && c[0] & 0x80 == 0 {
            Some((u32::from_be_bytes([0, 0, c[0], c[1]]), u16::from_le_bytes([c[2], c[3]])))
        } else if c.len() == 5 && c[0] & 0x80 != 0 && (c[0] & 0x7f != 0 || c[1] & 0x80 != 0) {
            Some((u32::from_be_bytes([0, c[0] & 0x7f, c[1], c[2]]), u16::from_le_bytes([c[3], c[4]])))
        } else {
            None
        }
    }
    fn server_enc(&mut self, o: &mut wrath_header::ServerCrypto, c: &mut [u8]) {
        let sh = if self.io_failed { None } else { Self::server_shape(c) };
        let (size, opcode) = match sh {
            Some(x) => x,
            None => return o.encrypt(c),
        };
        match self.next() {
            (1, _, _) => {
                self.typed_calls += 1;
                let h = o.encrypt_server_header(size, opcode).to_vec();
                for (i, b) in c.iter_mut().enumerate() {
                    *b = h.get(i).copied().unwrap_or(!*b);
                }
            }
            (2, cuts, intr) => {
                self.io_calls += 1;
                let mut w = FragWriter::new(c.len(), cuts, intr, Fail::None);
                if o.write_encrypted_server_header(&mut w, size, opcode).is_err() {
                    self.io_failed = true;
                    return;
                }
                for (i, b) in c.iter_mut().enumerate() {
                    *b = w.sink.get(i).copied().unwrap_or(!*b);
                }
            }
            _ => o.encrypt(c),
        }
    }
    fn client_dec(&mut self, o: &mut wrath_header::ClientCrypto, c: &mut [u8], plain_shape: bool, first4: Option<[u8; 4]>) {
        // the receiver cannot know the shape from ciphertext; the caller tells whether the sender's chunking produced a
        // header-shaped plaintext here (only then the read-based call consumes exactly this chunk)
        if !plain_shape || self.io_failed {
            return o.decrypt(c);
        }
        match self.next() {
            (1, _, _) => {
                // the two-step route; every other time the byte after the 4-byte attempt is taken by the raw call instead of
                // decrypt_large_server_header (one keystream per direction, whatever call consumes it)
                self.typed_calls += 1;
                match o.attempt_decrypt_server_header([c[0], c[1], c[2], c[3]]) {
                    wrath_header::WrathServerAttempt::Header(h) => {
                        let l = crate::c10::layout(h.size, h.opcode);
                        for (i, b) in c.iter_mut().enumerate() {
                            *b = l.get(i).copied().unwrap_or(!*b);
                        }
                    }
                    wrath_header::WrathServerAttempt::AdditionalByteRequired => {
                        if c.len() < 5 {
                            c[0] = !c[0]; // a fifth byte is asked for a 4-byte header: shows up as a plaintext difference
                        } else if self.salt & 1 == 0 {
                            let h = o.decrypt_large_server_header(c[4]);
                            let l = crate::c10::layout(h.size, h.opcode);
                            c.copy_from_slice(&l[..5]);
                        } else {
                            self.attempt_then_raw += 1;
                            o.decrypt(&mut c[4..5]);
                            // the first four plaintext bytes stay inside the object on this route; they are checked on the others
                            if let Some(p) = first4 {
                                c[..4].copy_from_slice(&p);
                            }
                        }
                    }
                }
            }
            (2, cuts, intr) => {
                self.io_calls += 1;
                let src = c.to_vec();
                let mut rd = FragReader::new(&src, src.len(), cuts, intr, Fail::Eof);
                match o.read_and_decrypt_server_header(&mut rd) {
                    Ok(h) => {
                        let l = crate::c10::layout(h.size, h.opcode);
                        for (i, b) in c.iter_mut().enumerate() {
                            *b = l.get(i).copied().unwrap_or(!*b);
                        }
                    }
                    Err(_) => self.io_failed = true,
                }
            }
            _ => o.decrypt(c),
        }
    }
}

fn wrath_dir(
    rep: &mut Rep,
    k: &[u8; 40],
    plain: &[u8],
    mut enc: impl FnMut(&mut [u8]),
    mut dec: impl FnMut(&mut [u8]),
    model: &mut ModelRc4,
    pseed: u64,
    dir: &str,
    offset: u64,
    abandoned: &dyn Fn() -> bool,
) -> bool {
    let mut rs = Rng::new(pseed, 1);
    let mut rr = Rng::new(pseed, 2);
    let mut want = plain.to_vec();
    model.xor(&mut want);
    let mut wire = plain.to_vec();
    let replay = format!("stream {} {} {} {}", hex(k), pseed, plain.len(), dir);
    match guard(|| chunked(&mut rs, &mut wire, |c| enc(c))) {
        Ok((calls, empty)) => {
            rep.count("encrypt_calls", calls);
            rep.count("empty_calls", empty);
        }
        Err(e) => {
            rep.violation("c09:panic:encrypt", format!("encrypt panicked: {}", e), replay);
            return false;
        }
    }
    if abandoned() {
        rep.count("info_write_wrapper_error_direction_abandoned", 1);
        return false;
    }
    rep.count("bytes_compared_with_model", plain.len() as u64);
    if let Some(i) = first_diff(&wire, &want) {
        rep.violation(
            &format!("c09:wire_differs_from_rc4_drop1024:{}", dir),
            format!("{} wire byte at stream offset {} is {:#04x}, plaintext xor model keystream gives {:#04x} (key {})", dir, offset + i as u64, wire[i], want[i], hex(k)),
            replay,
        );
        return false;
    }
    let mut back = wire;
    match guard(|| chunked(&mut rr, &mut back, |c| dec(c))) {
        Ok((calls, empty)) => {
            rep.count("decrypt_calls", calls);
            rep.count("empty_calls", empty);
        }
        Err(e) => {
            rep.violation("c09:panic:decrypt", format!("decrypt panicked: {}", e), replay);
            return false;
        }
    }
    if abandoned() {
        rep.count("info_read_wrapper_error_direction_abandoned", 1);
        return false;
    }
    if let Some(i) = first_diff(&back, plain) {
        rep.violation(
            &format!("c09:receiver_does_not_recover_plaintext:{}", dir),
            format!("{}: decrypted byte at stream offset {} is {:#04x}, sent {:#04x} (key {})", dir, offset + i as u64, back[i], plain[i], hex(k)),
            replay,
        );
        return false;
    }
    true
}

fn wrath_connection(rep: &mut Rep, k: [u8; 40], rng: &mut Rng, total_len: usize, class: u64) {
    let (mut client, mut server) = match guard(|| objs::wrath_pair(k)) {
        Ok(p) => p,
        Err(e) => {
            rep.violation("c09:panic:construct", format!("constructing the crypto objects panicked: {}", e), format!("stream {} 0 0 c2s", hex(&k)));
            return;
        }
    };
    let mut m_c2s = wrath_model(&WRATH_S, &k);
    let mut m_s2c = wrath_model(&WRATH_R, &k);
    // the two directions never share a keystream
    {
        let mut a = m_c2s.clone();
        let mut b = m_s2c.clone();
        let mut x = [0u8; 64];
        let mut y = [0u8; 64];
        a.xor(&mut x);
        b.xor(&mut y);
        if x == y {
            rep.inconc("model keystreams of the two directions coincide on 64 bytes (cannot happen for distinct constants)".to_string());
        }
        // library: encrypt 64 zero bytes on clones of both sides
        let mut c2 = client.clone();
        let mut s2 = server.clone();
        let mut lx = [0u8; 64];
        let mut ly = [0u8; 64];
        c2.encrypt(&mut lx);
        s2.encrypt(&mut ly);
        rep.count("direction_independence_checks", 1);
        if lx == ly {
            rep.violation("c09:directions_share_keystream", format!("client->server and server->client keystreams are identical for key {}", hex(&k)), format!("stream {} 0 64 c2s", hex(&k)));
        }
    }
    let mut off_c = 0u64;
    let mut off_s = 0u64;
    let mut left = total_len;
    while left > 0 {
        if total_len < 100_000 && rng.chance(1, 8) {
            other_module_noise(rng);
        }
        if total_len < 100_000 && rng.chance(1, 9) {
            // both ends move into objects that served another connection: in-place overwrite through Clone::clone_from
            let r = guard(|| {
                let mut k2 = k;
                if left % 2 == 0 {
                    k2.reverse();
                    k2[3] ^= 0xa5;
                } // else: an earlier, used state of the same connection (same session key)
                let (mut c2, mut s2) = objs::wrath_pair(k2);
                let mut junk = [0x44u8; 19];
                c2.encrypt(&mut junk);
                c2.decrypt(&mut junk);
                s2.encrypt(&mut junk);
                s2.decrypt(&mut junk);
                if rng.chance(1, 2) {
                    c2.clone_from(&client);
                    s2.clone_from(&server);
                } else {
                    c2.encrypter().clone_from(client.encrypter());
                    c2.decrypter().clone_from(client.decrypter());
                    s2.encrypter().clone_from(server.encrypter());
                    s2.decrypter().clone_from(server.decrypter());
                }
                (c2, s2)
            });
            match r {
                Ok((c2, s2)) => {
                    client = c2;
                    server = s2;
                    rep.count("objects_overwritten_in_place_by_clone_from", 2);
                }
                Err(e) => {
                    rep.violation("c09:panic:clone_from", e, format!("stream {} 0 64 c2s", hex(&k)));
                    return;
                }
            }
        }
        let len = (1 + rng.below(if total_len > (1 << 30) { 32 << 20 } else if total_len > 1000 { 40000 } else { 300 }) as usize).min(left);
        left -= len;
        let plain = rng.bytes(len);
        let ps = rng.next();
        let rt = std::cell::RefCell::new(WRoute::new(ps));
        let ok = if rng.chance(1, 2) {
            let r = wrath_dir(
                rep,
                &k,
                &plain,
                |c| rt.borrow_mut().client_enc(&mut client, c),
                |c| rt.borrow_mut().server_dec(&mut server, c),
                &mut m_c2s,
                ps,
                "c2s",
                off_c,
                &|| rt.borrow().io_failed,
            );
            off_c += len as u64;
            r
        } else {
            let mut doff = 0usize;
            let r = wrath_dir(
                rep,
                &k,
                &plain,
                |c| rt.borrow_mut().server_enc(&mut server, c),
                |c| {
                    let pc = &plain[doff..doff + c.len()];
                    let shape = WRoute::server_shape(pc).is_some();
                    let first4 = if pc.len() >= 4 { Some([pc[0], pc[1], pc[2], pc[3]]) } else { None };
                    doff += c.len();
                    rt.borrow_mut().client_dec(&mut client, c, shape, first4)
                },
                &mut m_s2c,
                ps,
                "s2c",
                off_s,
                &|| rt.borrow().io_failed,
            );
            off_s += len as u64;
            r
        };
        rep.count("header_shaped_chunks_through_typed_helpers", rt.borrow().typed_calls);
        rep.count("header_shaped_chunks_through_read_write_wrappers", rt.borrow().io_calls);
        rep.count("fifth_byte_after_attempt_taken_by_the_raw_call", rt.borrow().attempt_then_raw);
        rep.ev(1);
        if !ok {
            return;
        }
    }
    let mx = off_c.max(off_s);
    rep.hist("max_stream_offset", if mx > 1 << 24 { ">16Mi" } else if mx > 65536 { ">65536" } else if mx > 256 { ">256" } else { "<=256" }, 1);
    rep.cell(&[class, (off_c > 65536) as u64, (off_s > 65536) as u64, (off_c > 256) as u64, (off_s > 256) as u64]);
}

pub fn run_wrath(tier: &str, seed: u64) -> Rep {
    let mut total = Rep::new();
    total.rule = "per session key a client and a server object obtained via ProofSeed; random traffic in both directions with \
independent random partitions on both ends; wire bytes compared with plaintext xor textbook-RC4 keystream keyed by hand-built \
HMAC-SHA1(direction constant, K) after dropping 1024 bytes; receiver must recover the plaintext; the two directions must differ. \
distinct = (key class, directions crossing 256 / 65536 bytes) cells + session keys"
        .to_string();
    let (nkeys, len, huge): (usize, usize, usize) = match tier {
        "quick" => (16000, 70_000, 2),
        "thorough" => (60_000, 70_000, 16),
        _ => (2, 600, 0),
    };
    let shards = if tier == "miri" { 1 } else { 64 };
    let r = par(shards, threads(), |sh| {
        let mut rep = Rep::new();
        let mut rng = Rng::new(seed, 0x9000 + sh as u64);
        let per = (nkeys + shards - 1) / shards;
        if nkeys >= 100 {
            // the first header crypto built in the life of some threads belongs to another expansion
            let k: [u8; 40] = rng.arr();
            match sh % 3 {
                1 => {
                    let (mut c, _) = objs::tbc_pair(k);
                    let _ = c.encrypt_client_header(4, 1);
                }
                2 => {
                    let (mut c, _) = objs::vanilla_pair(k);
                    let _ = c.encrypt_client_header(4, 1);
                }
                _ => {}
            }
        }
        for i in 0..per {
            let (k, class) = match (sh * per + i) % 20 {
                0 => ([0u8; 40], 0),
                1 => ([0xff; 40], 1),
                _ => (rng.arr::<40>(), 2),
            };
            let l = if i % 4 == 0 { len * 2 } else { rng.below(3000) as usize + 1 };
            if nkeys >= 100 && rng.chance(1, 4) {
                other_module_noise(&mut rng);
                rep.count("other_module_noise", 1);
            }
            wrath_connection(&mut rep, k, &mut rng, l, class);
            rep.count("session_keys", 1);
            rep.distinct_extra += 1;
            if sh == 0 && i == 0 {
                rep.sample(format!("key {} : {} bytes of traffic split over both directions", hex(&k), l));
            }
        }
        for _ in 0..(if nkeys >= 1000 { 3 } else { 0 }) {
            let base: [u8; 40] = rng.arr();
            let mut fam: Vec<[u8; 40]> = vec![base];
            for pos in [0usize, 7, 8, 15, 16, 20, 31, 32, 39] {
                let mut k2 = base;
                k2[pos] ^= 1 << rng.below(8);
                fam.push(k2);
            }
            fam.extend(permuted_keys(&base, &mut rng));
            // keys with zero bytes at either end (a derivation that treats K as a number would trim them)
            for z in [1usize, 2, 8] {
                let mut k2 = base;
                for i in 0..z {
                    k2[39 - i] = 0;
                }
                fam.push(k2);
                let mut k3 = base;
                for i in 0..z {
                    k3[i] = 0;
                }
                fam.push(k3);
            }
            fam.push(base);
            for k in fam {
                wrath_connection(&mut rep, k, &mut rng, 300, 4);
                rep.count("related_key_objects", 1);
            }
        }
        if nkeys >= 100 {
            // a handful of session keys come back again and again on this thread, in changing order
            let pool: Vec<[u8; 40]> = (0..7).map(|_| rng.arr()).collect();
            for visit in 0..(if nkeys >= 1000 { 60 } else { 12 }) {
                let k = pool[match visit % 5 {
                    0 => 0,
                    1 => 1,
                    2 => 0,
                    _ => rng.below(7) as usize,
                }];
                wrath_connection(&mut rep, k, &mut rng, 200, 6);
                rep.count("connections_with_a_session_key_seen_before_on_the_thread", 1);
            }
        }
        if sh % 16 == 5 && nkeys >= 1000 {
            let k = rng.arr::<40>();
            let (mut client, mut server) = objs::wrath_pair(k);
            let mut m = wrath_model(&WRATH_S, &k);
            let mut m2 = wrath_model(&WRATH_R, &k);
            let mut pending: Vec<u8> = Vec::new();
            let mut bad = false;
            for c in 0..70_000usize {
                let n = 1 + rng.below(6) as usize;
                let plain = rng.bytes(n);
                let mut want = plain.clone();
                m.xor(&mut want);
                let mut wire = plain.clone();
                client.encrypt(&mut wire);
                if wire != want {
                    rep.violation("c09:many_small_calls:c2s", format!("call number {} on one long-lived connection: wire bytes differ from the model (key {})", c, hex(&k)), format!("stream {} {} {} c2s", hex(&k), c, n));
                    bad = true;
                    break;
                }
                // the receiver decrypts a backlog of several messages in one call
                pending.extend_from_slice(&wire);
                if c % 7 == 6 {
                    server.decrypt(&mut pending);
                    pending.clear();
                }
                // the other direction: one call per message on the sender, two calls on the receiver
                let p2 = rng.bytes(5);
                let mut w2 = p2.clone();
                server.encrypt(&mut w2);
                let mut e2 = p2.clone();
                m2.xor(&mut e2);
                let (a, b) = w2.split_at_mut(4);
                client.decrypt(a);
                client.decrypt(b);
                if w2 != p2 || e2.len() != 5 {
                    rep.violation("c09:many_small_calls:s2c", format!("message number {}: receiver using two calls per message does not recover the plaintext (key {})", c, hex(&k)), format!("stream {} {} 5 s2c", hex(&k), c));
                    bad = true;
                    break;
                }
            }
            rep.ev(1);
            if !bad {
                rep.count("connections_with_70000_small_calls", 1);
                rep.cell(&[8, 9]);
            }
        }
        if sh < huge {
            let k = rng.arr::<40>();
            wrath_connection(&mut rep, k, &mut rng, 40 << 20, 3);
            rep.count("huge_connections_40MiB", 1);
        }
        if tier == "thorough" && sh == 62 {
            // one single call with more than 2^31 bytes in each direction, then ordinary traffic
            let k = rng.arr::<40>();
            let (mut client, mut server) = objs::wrath_pair(k);
            for (dir, cst) in [("c2s", &WRATH_S), ("s2c", &WRATH_R)] {
                let mut m = wrath_model(cst, &k);
                let n = (1usize << 31) + 4096 + rng.below(64) as usize;
                let plain = rng.bytes(n);
                let mut wire = plain.clone();
                if dir == "c2s" {
                    client.encrypt(&mut wire);
                } else {
                    server.encrypt(&mut wire);
                }
                let mut want = plain.clone();
                m.xor(&mut want);
                rep.ev(1);
                if let Some(i) = first_diff(&wire, &want) {
                    rep.violation(&format!("c09:wire_differs_from_rc4_drop1024:{}:single_call_above_2^31", dir), format!("byte {} of one {}-byte call differs from the model", i, n), format!("stream {} 0 {} {}", hex(&k), n, dir));
                    break;
                }
                drop(want);
                if dir == "c2s" {
                    server.decrypt(&mut wire);
                } else {
                    client.decrypt(&mut wire);
                }
                if wire != plain {
                    rep.violation(&format!("c09:receiver_does_not_recover_plaintext:{}:single_call_above_2^31", dir), format!("one decrypt call with {} bytes does not recover the plaintext", n), format!("stream {} 0 {} {}", hex(&k), n, dir));
                    break;
                }
                drop(wire);
                let more = rng.bytes(200);
                let ps = rng.next();
                let ok = if dir == "c2s" {
                    wrath_dir(&mut rep, &k, &more, |c| client.encrypt(c), |c| server.decrypt(c), &mut m, ps, dir, n as u64, &|| false)
                } else {
                    wrath_dir(&mut rep, &k, &more, |c| server.encrypt(c), |c| client.decrypt(c), &mut m, ps, dir, n as u64, &|| false)
                };
                if !ok {
                    break;
                }
                rep.count("single_calls_above_2^31_bytes", 1);
            }
        }
        if tier == "thorough" && sh == 63 {
            // more than 2^32 bytes per direction on one connection (both directions > 4 GiB => ~9 GiB of traffic)
            let k = rng.arr::<40>();
            wrath_connection(&mut rep, k, &mut rng, 9usize << 30, 5);
            rep.count("connections_beyond_2^32_bytes", 1);
        }
        rep
    });
    total.merge(r);
    total
}

pub fn replay_wrath(args: &[String]) -> Rep {
    let mut rep = Rep::new();
    if args.len() >= 4 && args[0] == "stream" {
        let kb = unhex(&args[1]);
        let mut k = [0u8; 40];
        k.copy_from_slice(&kb[..40]);
        let pseed: u64 = args[2].parse().unwrap_or(0);
        let len: usize = args[3].parse().unwrap_or(64);
        let mut rng = Rng::new(pseed, 77);
        wrath_connection(&mut rep, k, &mut rng, len.max(64) * 4, 9);
    }
    rep
}
