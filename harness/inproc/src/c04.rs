//! C04 — public keys are refused exactly when they are congruent to zero modulo N (E2 part).
use crate::util::*;
use wow_srp::error::InvalidPublicKeyError;
use wow_srp::{PublicKey, LARGE_SAFE_PRIME_LITTLE_ENDIAN as N_LE};

#[derive(Clone, Copy, PartialEq, Eq, Debug)]
enum Out {
    Ok,
    Zero,
    ModN,
    WrongBytes,
}

fn call(x: [u8; 32]) -> Out {
    match PublicKey::from_le_bytes(x) {
        Ok(p) => {
            if *p.as_le_bytes() == x {
                Out::Ok
            } else {
                Out::WrongBytes
            }
        }
        Err(InvalidPublicKeyError::PublicKeyIsZero) => Out::Zero,
        Err(InvalidPublicKeyError::PublicKeyModLargeSafePrimeIsZero) => Out::ModN,
    }
}

fn expect(x: &[u8; 32]) -> Out {
    if x.iter().all(|b| *b == 0) {
        Out::Zero
    } else if *x == N_LE {
        Out::ModN
    } else {
        Out::Ok
    }
}

fn family(mask: u32) -> [u8; 32] {
    let mut x = [0u8; 32];
    for i in 0..32 {
        if (mask >> i) & 1 == 1 {
            x[i] = N_LE[i];
        }
    }
    x
}

fn judge(rep: &mut Rep, class: &str, x: [u8; 32]) {
    rep.ev(1);
    let got = match guard(|| call(x)) {
        Ok(g) => g,
        Err(e) => {
            rep.violation(&format!("c04:panic:{}", class), format!("from_le_bytes panicked on {}: {}", hex(&x), e), format!("key {}", hex(&x)));
            return;
        }
    };
    let want = expect(&x);
    if got != want {
        rep.violation(
            &format!("c04:{}:want_{:?}_got_{:?}", class, want, got),
            format!("PublicKey::from_le_bytes({}) -> {:?}, the rule says {:?}", hex(&x), got, want),
            format!("key {}", hex(&x)),
        );
    }
}

pub fn replay(args: &[String]) -> Rep {
    let mut rep = Rep::new();
    if args.len() >= 2 && args[0] == "key" {
        let b = unhex(&args[1]);
        let mut x = [0u8; 32];
        x.copy_from_slice(&b[..32]);
        judge(&mut rep, "replay", x);
    }
    rep
}

fn add_le(x: &[u8; 32], delta_pos: usize, plus: bool) -> [u8; 32] {
    // x +/- 256^delta_pos modulo 2^256
    let mut r = *x;
    let mut i = delta_pos;
    if plus {
        while i < 32 {
            let (v, c) = r[i].overflowing_add(1);
            r[i] = v;
            if !c {
                break;
            }
            i += 1;
        }
    } else {
        while i < 32 {
            let (v, c) = r[i].overflowing_sub(1);
            r[i] = v;
            if !c {
                break;
            }
            i += 1;
        }
    }
    r
}

pub fn run(tier: &str, seed: u64) -> Rep {
    let full_family = tier == "thorough";
    let mut total = Rep::new();
    total.rule = "PublicKey::from_le_bytes on: the whole family of 2^32 arrays whose bytes are each 0 or N's byte at that position \
(exhaustive), 0 and N with every single bit flipped and every single byte replaced by every value, N+-256^i, 0+-256^i, 2N mod 2^256, \
all-FF, random arrays; oracle: exactly all-zero -> PublicKeyIsZero, exactly N -> PublicKeyModLargeSafePrimeIsZero, else Ok and \
as_le_bytes() returns the input. distinct = distinct arrays tried (all non-trivial: each is a separate input of the quantifier)"
        .to_string();
    // ---- the 2^32 look-alike family
    let shards = if tier == "miri" { 8usize } else { 256usize };
    let per = match tier {
        "thorough" => 1u64 << 24,
        "quick" => 1u64 << 20,
        _ => 1u64 << 2,
    };
    let slice = if full_family { 0 } else { (seed % 16) << 20 };
    // byte-group tables: family(mask) = T[k][(mask >> 8k) & 255] per 8 bytes
    let mut table = [[0u64; 256]; 4];
    for k in 0..4 {
        for m in 0..256usize {
            let mut w = [0u8; 8];
            for b in 0..8 {
                if (m >> b) & 1 == 1 {
                    w[b] = N_LE[k * 8 + b];
                }
            }
            table[k][m] = u64::from_le_bytes(w);
        }
    }
    let table = &table;
    let fam = par(shards, threads(), |sh| {
        let mut rep = Rep::new();
        let mut wrong_zero = 0u64;
        let mut wrong_modn = 0u64;
        let mut wrong_other = 0u64;
        let mut first: Option<([u8; 32], Out)> = None;
        for lo in 0..per {
            let mask = (((sh as u64) << 24) | slice | lo) as u32 ^ if shards == 8 { 0x5A5A_0000 } else { 0 };
            let mut x = [0u8; 32];
            for k in 0..4 {
                x[k * 8..k * 8 + 8].copy_from_slice(&table[k][((mask >> (8 * k)) & 255) as usize].to_le_bytes());
            }
            debug_assert_eq!(x, family(mask));
            let got = call(x);
            let want = expect(&x);
            if got != want {
                match got {
                    Out::Zero => wrong_zero += 1,
                    Out::ModN => wrong_modn += 1,
                    _ => wrong_other += 1,
                }
                if first.is_none() {
                    first = Some((x, got));
                }
            }
        }
        rep.ev(per);
        rep.distinct_extra += per;
        rep.count("family_members_tried", per);
        rep.count("family_members_wrongly_reported_zero", wrong_zero);
        rep.count("family_members_wrongly_reported_modn", wrong_modn);
        rep.count("family_members_other_mismatch", wrong_other);
        if let Some((x, got)) = first {
            let want = expect(&x);
            rep.violation(
                &format!("c04:family:want_{:?}_got_{:?}", want, got),
                format!("PublicKey::from_le_bytes({}) -> {:?}, the rule says {:?} (array made only of zero bytes and bytes of N)", hex(&x), got, want),
                format!("key {}", hex(&x)),
            );
        }
        rep
    });
    // a panic inside the tight loop would have been reported as harness inconclusive; the
    // guarded path below covers panics per class
    total.merge(fam);
    if !full_family {
        total.note(format!("quick tier: a 2^28 slice of the 2^32 family (slice {} of 16, chosen by the seed); the thorough tier enumerates all of it", seed % 16));
    }
    if full_family {
        total.exhaustive = Some(true);
        total.note("the 2^32 family (every byte 0 or N's byte) was enumerated completely".to_string());
    }
    // ---- neighbours
    let mut rep = Rep::new();
    let zero = [0u8; 32];
    let miri = tier == "miri";
    for base in [zero, N_LE] {
        let bname = if base == zero { "near0" } else { "nearN" };
        judge(&mut rep, bname, base);
        for bit in (0..256).step_by(if miri { 5 } else { 1 }) {
            let mut x = base;
            x[bit / 8] ^= 1 << (bit % 8);
            judge(&mut rep, &format!("{}:bitflip", bname), x);
        }
        for i in 0..32 {
            for v in (0..=255u8).step_by(if miri { 51 } else { 1 }) {
                let mut x = base;
                x[i] = v;
                judge(&mut rep, &format!("{}:byte_replaced", bname), x);
            }
            judge(&mut rep, &format!("{}:plus256^i", bname), add_le(&base, i, true));
            judge(&mut rep, &format!("{}:minus256^i", bname), add_le(&base, i, false));
        }
    }
    if tier == "thorough" {
        // every array that differs from 0 or from N in exactly two bytes
        let two = par(32, threads(), |i| {
            let mut rep = Rep::new();
            for base in [[0u8; 32], N_LE] {
                for j in (i + 1)..32 {
                    for a in 0..=255u8 {
                        if a == base[i] {
                            continue;
                        }
                        for b in 0..=255u8 {
                            if b == base[j] {
                                continue;
                            }
                            let mut x = base;
                            x[i] = a;
                            x[j] = b;
                            let got = call(x);
                            if got != Out::Ok {
                                judge(&mut rep, "two_bytes_replaced", x);
                            }
                        }
                    }
                    rep.ev(255 * 255);
                    rep.distinct_extra += 255 * 255;
                }
            }
            rep.count("two_byte_neighbours_enumerated", rep.evals);
            rep
        });
        total.merge(two);
    }
    // 2N mod 2^256
    let mut two_n = [0u8; 32];
    let mut carry = 0u16;
    for i in 0..32 {
        let v = (N_LE[i] as u16) * 2 + carry;
        two_n[i] = v as u8;
        carry = v >> 8;
    }
    judge(&mut rep, "2N_mod_2^256", two_n);
    judge(&mut rep, "all_ff", [0xff; 32]);
    // small integers (the family contains e.g. 183 = N's lowest byte)
    for v in 0..=(if miri { 300u32 } else { 65535u32 }) {
        let mut x = [0u8; 32];
        x[0] = v as u8;
        x[1] = (v >> 8) as u8;
        judge(&mut rep, "small_integer", x);
    }
    rep.distinct_extra += rep.evals;
    total.merge(rep);
    // ---- all threads validate structurally close keys at the same time (N, 0, and keys that differ from them in one or two
    //      bytes in different 8-byte words): a verdict remembered or assembled across threads would show
    if tier != "miri" {
        let rounds: u64 = if tier == "quick" { 400_000 } else { 6_000_000 };
        let conc = par(threads(), threads(), |t| {
            let mut rep = Rep::new();
            let mut rng = Rng::new(seed, 0xC04_C000 + t as u64);
            for i in 0..rounds {
                let base = if (i + t as u64) % 2 == 0 { N_LE } else { [0u8; 32] };
                let mut x = base;
                match rng.below(6) {
                    0 => {}
                    1 | 2 => {
                        let p = rng.below(32) as usize;
                        x[p] = x[p].wrapping_add(1 + rng.below(255) as u8);
                    }
                    3 => {
                        // a whole 8-byte word or a 16-byte half replaced
                        let w = rng.below(4) as usize;
                        for j in 0..8 {
                            x[w * 8 + j] = rng.byte();
                        }
                    }
                    4 => {
                        let h = rng.below(2) as usize;
                        for j in 0..16 {
                            x[h * 16 + j] = rng.byte();
                        }
                    }
                    _ => {
                        let other = if base == N_LE { [0u8; 32] } else { N_LE };
                        let h = rng.below(2) as usize;
                        for j in 0..16 {
                            x[h * 16 + j] = other[h * 16 + j];
                        }
                    }
                }
                let got = call(x);
                if got != expect(&x) {
                    judge(&mut rep, "concurrent_close_keys", x);
                }
            }
            rep.ev(rounds);
            rep.count("concurrent_close_key_validations", rounds);
            rep
        });
        total.merge(conc);
    }
    // ---- random arrays and random family masks
    let nrand: u64 = match tier {
        "quick" => 4_000_000,
        "thorough" => 2_000_000_000,
        _ => 320,
    };
    let r = par(16, threads(), |sh| {
        let mut rep = Rep::new();
        let mut rng = Rng::new(seed, 0xC04_0000 + sh as u64);
        for i in 0..nrand / 16 {
            let x: [u8; 32] = if i % 4 == 0 {
                // sparse: mostly zero / N bytes with a few random ones
                let mut x = family(rng.next() as u32);
                let k = rng.below(3);
                for _ in 0..k {
                    x[rng.below(32) as usize] = rng.byte();
                }
                x
            } else {
                rng.arr::<32>()
            };
            judge(&mut rep, "random", x);
            if i < 2 && sh == 0 {
                rep.sample(format!("from_le_bytes({}) -> {:?}", hex(&x), call(x)));
            }
        }
        rep.distinct_extra += rep.evals;
        rep
    });
    total.merge(r);
    total
}
