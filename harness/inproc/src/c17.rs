//! C17 — integrity hashes depend only on the concatenated files, salt and key.
use crate::util::*;
use wow_srp::integrity::{login_integrity_check_generic, login_integrity_check_mac, login_integrity_check_windows, reconnect_integrity_check};

pub fn model(all: &[&[u8]], salt: &[u8; 16], key: &[u8; 32]) -> [u8; 20] {
    let mac = hmac_sha1(salt, all);
    sha1(&[key, &mac])
}

pub fn self_check() -> Result<u64, String> {
    let mut n = 0;
    let p = format!("{}/integrity/generic_regression.txt", VECTORS_DIR);
    let s = std::fs::read_to_string(&p).map_err(|e| format!("{}: {}", p, e))?;
    for l in s.lines().take(250) {
        let f: Vec<&str> = l.split_whitespace().collect();
        if f.len() < 4 {
            continue;
        }
        let all = unhex(f[0]);
        let salt: [u8; 16] = unhex(f[1]).try_into().map_err(|_| "salt")?;
        let key: [u8; 32] = unhex(f[2]).try_into().map_err(|_| "key")?;
        if model(&[&all], &salt, &key).to_vec() != unhex(f[3]) {
            return Err("integrity model disagrees with the frozen generic vectors".into());
        }
        n += 1;
    }
    let p = format!("{}/integrity/reconnect_regression.txt", VECTORS_DIR);
    let s = std::fs::read_to_string(&p).map_err(|e| format!("{}: {}", p, e))?;
    for l in s.lines().take(250) {
        let f: Vec<&str> = l.split_whitespace().collect();
        if f.len() < 2 {
            continue;
        }
        let salt = unhex(f[0]);
        if sha1(&[&salt, &[0u8; 20]]).to_vec() != unhex(f[1]) {
            return Err("reconnect integrity model disagrees with the frozen vectors".into());
        }
        n += 1;
    }
    Ok(n)
}

/// Judge one distribution of `data` over five arguments given by 4 cut points.
fn judge(rep: &mut Rep, data: &[u8], cuts: [usize; 4], salt: &[u8; 16], key: &[u8; 32], class: &str) {
    let replay = || format!("dist {} {} {} {} {} {} {}", hex(data), cuts[0], cuts[1], cuts[2], cuts[3], hex(salt), hex(key));
    let f = [&data[..cuts[0]], &data[cuts[0]..cuts[1]], &data[cuts[1]..cuts[2]], &data[cuts[2]..cuts[3]], &data[cuts[3]..]];
    let want = model(&[data], salt, key);
    rep.ev(3);
    let w = guard(|| login_integrity_check_windows(f[0], f[1], f[2], f[3], f[4], salt, key));
    let m = guard(|| login_integrity_check_mac(f[0], f[1], f[2], f[3], f[4], salt, key));
    let g = guard(|| login_integrity_check_generic(data, salt, key));
    for (name, r) in [("windows", w), ("mac", m), ("generic", g)] {
        match r {
            Err(e) => rep.violation(&format!("c17:panic:{}", name), format!("{} panicked: {}", name, e), replay()),
            Ok(h) => {
                if h != want {
                    rep.violation(
                        &format!("c17:{}_differs:{}", name, class),
                        format!("{} check over files of lengths {:?} gives {}, SHA1(key|HMAC(salt, files)) gives {}", name, f.iter().map(|x| x.len()).collect::<Vec<_>>(), hex(&h), hex(&want)),
                        replay(),
                    );
                }
            }
        }
    }
}

/// Like `judge`, for inputs too long to be written into a replay line: the replay names the file lengths (the content is
/// regenerated pseudo-randomly; these classes depend on lengths only).
fn judge_lens(rep: &mut Rep, data: &[u8], cuts: [usize; 4], salt: &[u8; 16], key: &[u8; 32], class: &str) {
    let f = [&data[..cuts[0]], &data[cuts[0]..cuts[1]], &data[cuts[1]..cuts[2]], &data[cuts[2]..cuts[3]], &data[cuts[3]..]];
    let replay = || format!("lens {} {} {} {} {}", f[0].len(), f[1].len(), f[2].len(), f[3].len(), f[4].len());
    let want = model(&[data], salt, key);
    rep.ev(3);
    let w = guard(|| login_integrity_check_windows(f[0], f[1], f[2], f[3], f[4], salt, key));
    let m = guard(|| login_integrity_check_mac(f[0], f[1], f[2], f[3], f[4], salt, key));
    let g = guard(|| login_integrity_check_generic(data, salt, key));
    for (name, r) in [("windows", w), ("mac", m), ("generic", g)] {
        match r {
            Err(e) => rep.violation(&format!("c17:panic:{}", name), format!("{} panicked: {}", name, e), replay()),
            Ok(h) => {
                if h != want {
                    rep.violation(
                        &format!("c17:{}_differs:{}", name, class),
                        format!("{} check over files of lengths {:?} gives {}, SHA1(key|HMAC(salt, files)) gives {}", name, f.iter().map(|x| x.len()).collect::<Vec<_>>(), hex(&h), hex(&want)),
                        replay(),
                    );
                }
            }
        }
    }
}

/// Structured relatives of a byte string: values a partial fingerprint (a fold, a prefix, a suffix, a sum, a permutation-
/// invariant digest) would confuse with the original. `t` selects the transformation.
pub fn relative(v: &[u8], t: usize, rng: &mut Rng) -> (Vec<u8>, &'static str) {
    let n = v.len();
    let h = n / 2;
    let mut o = v.to_vec();
    let name = match t % 12 {
        0 => { o.rotate_left(h); "halves_swapped" }
        1 => { let x = rng.bytes(h); for i in 0..h { o[i] ^= x[i]; o[i + h] ^= x[i]; } "same_xor_on_both_halves" }
        2 => { o.reverse(); "reversed" }
        3 => { let k = 1 + rng.below(n as u64 - 1) as usize; o.rotate_left(k); "rotated" }
        4 => { let i = rng.below(n as u64) as usize; let j = (i + 1 + rng.below(n as u64 - 1) as usize) % n; o.swap(i, j); "two_bytes_swapped" }
        5 => { let q = n / 4; o.rotate_left(q); "quarters_rotated" }
        6 => { let x = rng.bytes(4); for i in 0..n / 4 { if i < 2 { for k in 0..4 { o[4 * i + k] ^= x[k]; } } } "same_xor_on_two_words" }
        7 => { let i = rng.below(n as u64) as usize; let j = (i + 1 + rng.below(n as u64 - 1) as usize) % n; let d = 1 + rng.below(255) as u8; o[i] = o[i].wrapping_add(d); o[j] = o[j].wrapping_sub(d); "same_byte_sum" }
        8 => { let x = rng.bytes(n - 8); for i in 8..n { o[i] ^= x[i - 8] | 1; } "same_first_8_bytes" }
        9 => { let x = rng.bytes(n - 8); for i in 0..n - 8 { o[i] ^= x[i] | 1; } "same_last_8_bytes" }
        10 => { let x = rng.bytes(n); for i in 4..n - 4 { o[i] ^= x[i] | 1; } "same_first_and_last_4_bytes" }
        _ => { for b in o.iter_mut() { *b = !*b; } "complemented" }
    };
    (o, name)
}

/// Consecutive calls on one thread whose salts (or keys) are structured relatives of each other: the second answer must
/// not depend on the first call (no memo of a keyed state identified by a partial fingerprint).
fn judge_history(rep: &mut Rep, data: &[u8], salts: &[[u8; 16]], keys: &[[u8; 32]], which: usize, class: &str) {
    let replay = || {
        format!("hist {} {} {} {}", which, hex(data), salts.iter().map(|s| hex(s)).collect::<Vec<_>>().join(","), keys.iter().map(|s| hex(s)).collect::<Vec<_>>().join(","))
    };
    let cut = data.len() / 3;
    for (i, (salt, key)) in salts.iter().zip(keys.iter()).enumerate() {
        let want = model(&[data], salt, key);
        rep.ev(1);
        let r = match (which + i) % 3 {
            0 => guard(|| login_integrity_check_windows(&data[..cut], &[], &data[cut..], &[], &[], salt, key)),
            1 => guard(|| login_integrity_check_mac(&data[..cut], &data[cut..], &[], &[], &[], salt, key)),
            _ => guard(|| login_integrity_check_generic(data, salt, key)),
        };
        match r {
            Err(e) => rep.violation("c17:panic:history", format!("call {} of a sequence panicked: {}", i, e), replay()),
            Ok(h) => {
                if h != want {
                    rep.violation(
                        &format!("c17:depends_on_call_history:{}", class),
                        format!("call {} of a sequence of calls on one thread (salt {}, key {}) gives {}, SHA1(key|HMAC(salt, files)) gives {}; the call before used salt {} key {}", i, hex(salt), hex(key), hex(&h), hex(&want), if i > 0 { hex(&salts[i - 1]) } else { "-".into() }, if i > 0 { hex(&keys[i - 1]) } else { "-".into() }),
                        replay(),
                    );
                }
            }
        }
    }
}

/// Very large inputs (the data is regenerated from `dseed` on replay instead of being written into the replay line).
fn judge_big(rep: &mut Rep, len: usize, dseed: u64, class: &str) {
    let mut rng = Rng::new(dseed, 0xb16);
    let data = rng.bytes(len);
    let salt: [u8; 16] = rng.arr();
    let key: [u8; 32] = rng.arr();
    // cut points: random, one of them on a 64-byte block boundary, one file possibly empty
    let mut cuts = [rng.below(len as u64 + 1) as usize, (rng.below(len as u64 + 1) as usize) & !63, rng.below(len as u64 + 1) as usize, rng.below(len as u64 + 1) as usize];
    cuts.sort();
    if dseed & 1 == 1 {
        cuts[2] = cuts[1];
    }
    let replay = format!("big {} {} {}", len, dseed, class);
    let f = [&data[..cuts[0]], &data[cuts[0]..cuts[1]], &data[cuts[1]..cuts[2]], &data[cuts[2]..cuts[3]], &data[cuts[3]..]];
    let want = model(&[&data], &salt, &key);
    rep.ev(3);
    let w = guard(|| login_integrity_check_windows(f[0], f[1], f[2], f[3], f[4], &salt, &key));
    let m = guard(|| login_integrity_check_mac(f[0], f[1], f[2], f[3], f[4], &salt, &key));
    let g = guard(|| login_integrity_check_generic(&data, &salt, &key));
    for (name, r) in [("windows", w), ("mac", m), ("generic", g)] {
        match r {
            Err(e) => rep.violation(&format!("c17:panic:{}", name), format!("{} panicked on {} bytes: {}", name, len, e), replay.clone()),
            Ok(h) => {
                if h != want {
                    rep.violation(
                        &format!("c17:{}_differs:{}", name, class),
                        format!("{} check over {} bytes (files of lengths {:?}) gives {}, SHA1(key|HMAC(salt, files)) gives {}", name, len, f.iter().map(|x| x.len()).collect::<Vec<_>>(), hex(&h), hex(&want)),
                        replay.clone(),
                    );
                }
            }
        }
    }
    rep.count("inputs_above_2MiB", 1);
    rep.count("bytes_in_inputs_above_2MiB", len as u64);
    rep.hist("large_input_log2", (usize::BITS - 1 - len.leading_zeros()) as usize, 1);
    rep.cell(&[3000, len as u64]);
}

/// lengths around powers of two from 2 MiB up (16 MiB, 32 MiB and 64 MiB are customary block sizes of chunked hashing)
pub const BIG_QUICK: [usize; 16] = [
    (1 << 21) + 1, (1 << 22) - 1, (1 << 23) + 17, 1 << 24, (1 << 24) + 1, (1 << 24) + 4321, (1 << 25) + 3, (1 << 25) - 5,
    (1 << 26) + 9, 3 * (1 << 24) + 2, (1 << 24) + (1 << 12), 10 * (1 << 20) + 7, (1 << 26) - 1, (1 << 27) + 5, 3 * (1 << 23) + 1, (1 << 24) - 1,
];
pub const BIG_THOROUGH: [usize; 6] = [(1 << 28) + 1, (1 << 29) + 3, (1 << 30) + 5, (1 << 31) + 7, (1usize << 32) + 9, (1 << 31) - 1];

fn t_code(name: &str) -> usize {
    name.bytes().fold(0usize, |a, b| a.wrapping_mul(31).wrapping_add(b as usize)) % 100000
}

pub fn run(tier: &str, seed: u64) -> Rep {
    let mut total = Rep::new();
    total.rule = "Windows, Mac and single-buffer integrity functions against SHA1(key | hand-built HMAC-SHA1(salt, concatenated files)): for \
byte strings of length 0..L all C(L+4,4) distributions over the five file arguments (including empty files), lengths around SHA-1 block \
boundaries, up to 1 MiB and around powers of two from 2 MiB to 128 MiB (thorough: to 4 GiB + 9) with random cut points, every single-bit change of salt, key and short files changes the result; sequences of consecutive calls on one thread whose salts or keys are structured relatives (halves swapped, same XOR on both halves, reversed, rotated, same byte sum, same prefix / suffix, ...) each judged against the model; reconnect \
check against SHA1(salt | 20 zero bytes). distinct = distinct (length, distribution) pairs + bit positions flipped"
        .to_string();
    let max_l: usize = match tier {
        "quick" => 12,
        "thorough" => 20,
        _ => 2,
    };
    let r = par(max_l + 1, threads(), |l| {
        let mut rep = Rep::new();
        let mut rng = Rng::new(seed, 0x17000 + l as u64);
        let data = rng.bytes(l);
        let salt: [u8; 16] = rng.arr();
        let key: [u8; 32] = rng.arr();
        let mut n = 0u64;
        for a in 0..=l {
            for b in a..=l {
                for c in b..=l {
                    for d in c..=l {
                        judge(&mut rep, &data, [a, b, c, d], &salt, &key, "all_distributions");
                        n += 1;
                    }
                }
            }
        }
        rep.count("distributions_enumerated", n);
        rep.hist("distributions_by_length", l, n);
        rep.distinct_extra += n;
        rep
    });
    total.merge(r);
    total.exhaustive = Some(true);
    total.note(format!("all distributions of byte strings of length 0..={} over the five arguments were enumerated", max_l));
    let (n_sizes, big): (usize, usize) = match tier {
        "quick" => (20000, 4),
        "thorough" => (60000, 32),
        _ => (2, 0),
    };
    let r = par(if tier == "miri" { 1 } else { 16 }, threads(), |sh| {
        let mut rep = Rep::new();
        let mut rng = Rng::new(seed, 0x17100 + sh as u64);
        let special = [55usize, 56, 63, 64, 65, 119, 120, 127, 128, 129, 191, 192, 193, 1000, 4096];
        for i in 0..(n_sizes + 15) / 16 {
            let len = if i < special.len() { special[(i + sh) % special.len()] } else { rng.below(5000) as usize };
            let data = rng.bytes(len);
            let salt: [u8; 16] = match i % 11 {
                3 => [0u8; 16],
                7 => [0xff; 16],
                _ => rng.arr(),
            };
            let key: [u8; 32] = match i % 7 {
                1 => wow_srp::LARGE_SAFE_PRIME_LITTLE_ENDIAN,
                2 => [0u8; 32],
                3 => [0xff; 32],
                4 => {
                    let mut k = wow_srp::LARGE_SAFE_PRIME_LITTLE_ENDIAN;
                    k[0] ^= 1;
                    k
                }
                _ => rng.arr(),
            };
            rep.hist("key_class", match i % 7 { 1 => "N", 2 => "zero", 3 => "ff", 4 => "N^1", _ => "random" }, 1);
            let mut cuts = [rng.below(len as u64 + 1) as usize, rng.below(len as u64 + 1) as usize, rng.below(len as u64 + 1) as usize, rng.below(len as u64 + 1) as usize];
            cuts.sort();
            if rng.chance(1, 5) {
                cuts[1] = cuts[0]; // empty file in the middle
            }
            if rng.chance(1, 5) {
                cuts = [0, 0, cuts[2], cuts[2]];
            }
            judge(&mut rep, &data, cuts, &salt, &key, "block_boundaries_and_random");
            rep.cell(&[len as u64, cuts[0] as u64, cuts[1] as u64, cuts[2] as u64, cuts[3] as u64]);
            // one-bit changes must change the result
            if i % 4 == 0 {
                let base = login_integrity_check_generic(&data, &salt, &key);
                rep.ev(1);
                for bit in (0..128).step_by(if n_sizes < 10 { 16 } else { 1 }) {
                    let mut s2 = salt;
                    s2[bit / 8] ^= 1 << (bit % 8);
                    rep.ev(1);
                    if login_integrity_check_windows(&data[..cuts[0]], &data[cuts[0]..cuts[1]], &data[cuts[1]..cuts[2]], &data[cuts[2]..cuts[3]], &data[cuts[3]..], &s2, &key) == base {
                        rep.violation("c17:salt_bit_ignored", format!("flipping salt bit {} does not change the Windows result", bit), format!("dist {} 0 0 0 0 {} {}", hex(&data[..data.len().min(64)]), hex(&salt), hex(&key)));
                    }
                    rep.cell(&[1001, bit as u64]);
                }
                for bit in (0..256).step_by(if n_sizes < 10 { 32 } else { 1 }) {
                    let mut k2 = key;
                    k2[bit / 8] ^= 1 << (bit % 8);
                    rep.ev(1);
                    if login_integrity_check_mac(&data[..cuts[0]], &data[cuts[0]..cuts[1]], &data[cuts[1]..cuts[2]], &data[cuts[2]..cuts[3]], &data[cuts[3]..], &salt, &k2) == base {
                        rep.violation("c17:key_bit_ignored", format!("flipping key bit {} does not change the Mac result", bit), format!("dist {} 0 0 0 0 {} {}", hex(&data[..data.len().min(64)]), hex(&salt), hex(&key)));
                    }
                    rep.cell(&[1002, bit as u64]);
                }
                if len > 0 && len <= 200 {
                    for bit in (0..len * 8).step_by(if n_sizes < 10 { 40 } else { 1 }) {
                        let mut d2 = data.clone();
                        d2[bit / 8] ^= 1 << (bit % 8);
                        rep.ev(2);
                        let w = login_integrity_check_windows(&d2[..cuts[0]], &d2[cuts[0]..cuts[1]], &d2[cuts[1]..cuts[2]], &d2[cuts[2]..cuts[3]], &d2[cuts[3]..], &salt, &key);
                        let m = login_integrity_check_mac(&d2[..cuts[0]], &d2[cuts[0]..cuts[1]], &d2[cuts[1]..cuts[2]], &d2[cuts[2]..cuts[3]], &d2[cuts[3]..], &salt, &key);
                        if w == base || m == base {
                            let which = [cuts[0], cuts[1], cuts[2], cuts[3]].iter().filter(|c| **c <= bit / 8).count();
                            rep.violation(&format!("c17:file_bit_ignored:file{}", which), format!("flipping bit {} (file argument {}) does not change the result", bit, which), format!("dist {} {} {} {} {} {} {}", hex(&data), cuts[0], cuts[1], cuts[2], cuts[3], hex(&salt), hex(&key)));
                        }
                    }
                    rep.count("file_bitflip_sweeps", 1);
                }
            }
            if i % 3 == 0 {
                // related inputs immediately after one another on this thread
                let mut salt2 = salt;
                salt2[15] ^= 1;
                let mut key2 = key;
                key2[31] ^= 0x80;
                judge(&mut rep, &data, cuts, &salt2, &key, "related_consecutive");
                judge(&mut rep, &data, cuts, &salt, &key2, "related_consecutive");
                if len > 1 {
                    let shorter = &data[..len - 1];
                    let c2 = [cuts[0].min(len - 1), cuts[1].min(len - 1), cuts[2].min(len - 1), cuts[3].min(len - 1)];
                    judge(&mut rep, shorter, c2, &salt, &key, "related_consecutive");
                    let mut d2 = data.clone();
                    d2[len - 1] ^= 1;
                    judge(&mut rep, &d2, cuts, &salt, &key, "related_consecutive");
                    let mut longer = data.clone();
                    longer.push(0);
                    judge(&mut rep, &longer, cuts, &salt, &key, "related_consecutive");
                }
                judge(&mut rep, &data, [0, 0, 0, 0], &salt, &key, "related_consecutive");
                judge(&mut rep, &data, cuts, &salt, &key, "related_consecutive");
                rep.count("related_consecutive_groups", 1);
            }
            if i == 0 && sh == 0 {
                rep.sample(format!("{} bytes cut at {:?}: windows == mac == generic == {}", len, cuts, hex(&model(&[&data], &salt, &key))));
            }
        }
        // structurally special lengths: files that end exactly on 4 KiB / 64 KiB multiples of the concatenation
        for (i, (total_len, cuts)) in [
            (65536usize, [65536usize, 65536, 65536, 65536]),
            (65536 + 40, [65536, 65546, 65556, 65566]),
            (65536, [60000, 65536, 65536, 65536]),
            (131072 + 7, [65536, 131072, 131072, 131075]),
            (8192, [4096, 8192, 8192, 8192]),
            (4096 * 3, [4096, 4096, 8192, 12288]),
            (65536 * 3, [1, 65536, 65537, 131072]),
            (65536 * 2, [0, 0, 65536, 65536]),
        ]
        .iter()
        .enumerate()
        {
            if (i + sh) % 4 != 0 && n_sizes >= 10 {
                continue;
            }
            if n_sizes < 10 {
                break;
            }
            let data = rng.bytes(*total_len);
            let salt: [u8; 16] = rng.arr();
            let key: [u8; 32] = rng.arr();
            judge(&mut rep, &data, *cuts, &salt, &key, "boundary_aligned_files");
            // and the last byte of the aligned file matters
            let base = login_integrity_check_generic(&data, &salt, &key);
            for c in cuts.iter().filter(|c| **c > 0 && **c <= data.len()) {
                let mut d2 = data.clone();
                d2[*c - 1] ^= 1;
                rep.ev(2);
                let w = login_integrity_check_windows(&d2[..cuts[0]], &d2[cuts[0]..cuts[1]], &d2[cuts[1]..cuts[2]], &d2[cuts[2]..cuts[3]], &d2[cuts[3]..], &salt, &key);
                let m = login_integrity_check_mac(&d2[..cuts[0]], &d2[cuts[0]..cuts[1]], &d2[cuts[1]..cuts[2]], &d2[cuts[2]..cuts[3]], &d2[cuts[3]..], &salt, &key);
                if w == base || m == base {
                    rep.violation("c17:file_bit_ignored:boundary_aligned", format!("changing the last byte of a file that ends at offset {} does not change the result", c), format!("dist {} {} {} {} {} {} {}", "00", cuts[0], cuts[1], cuts[2], cuts[3], hex(&salt), hex(&key)));
                }
            }
            rep.count("boundary_aligned_inputs", 1);
            rep.cell(&[2000, *total_len as u64, cuts[0] as u64]);
        }
        if sh < big {
            let len = 1 << 20;
            let data = rng.bytes(len);
            let mut cuts = [rng.below(len as u64) as usize, rng.below(len as u64) as usize, rng.below(len as u64) as usize, rng.below(len as u64) as usize];
            cuts.sort();
            judge(&mut rep, &data, cuts, &rng.arr(), &rng.arr(), "one_mebibyte");
            rep.count("one_mebibyte_inputs", 1);
            rep.cell(&[len as u64, cuts[0] as u64]);
        }
        if n_sizes >= 10 {
            // (a) a small non-empty first file followed by a second file of EVERY length in a range: wherever an
            //     implementation keeps a staging area, some length completes it exactly, overflows it by one, ...
            let top: usize = if big > 4 { 150_000 } else { 40_000 };
            let pool = rng.bytes(top + 1600 + 16);
            let salt: [u8; 16] = rng.arr();
            let key: [u8; 32] = rng.arr();
            let mut n = 0u64;
            let mut l2 = sh;
            while l2 <= top {
                for a in [1usize, 1500] {
                    let tail = 7 * (l2 % 2);
                    let total_len = a + l2 + tail;
                    let data = &pool[..total_len];
                    judge_lens(&mut rep, data, [a, a + l2, total_len, total_len], &salt, &key, "second_file_length_sweep");
                    n += 1;
                }
                l2 += 16;
            }
            rep.count("second_file_length_sweep_cases", n);
            rep.distinct_extra += n;
            // (b) five files drawn from size classes (empty, tiny, small, around and above customary buffer sizes), with a
            //     little jitter: small files before an empty one before a large one, and every other arrangement
            const CLASSES: [usize; 8] = [0, 1, 100, 2000, 20_000, 33_000, 70_000, 140_000];
            let pool2 = rng.bytes(5 * 140_010);
            let ncombo: usize = if big > 4 { 32768 } else { 4096 };
            let mut c = sh;
            let mut m = 0u64;
            while c < ncombo {
                let code = if big > 4 { c } else { rng.below(32768) as usize };
                let mut cuts = [0usize; 4];
                let mut acc = 0usize;
                for f in 0..5 {
                    let cls = CLASSES[(code >> (3 * f)) & 7];
                    let len = if cls == 0 { 0 } else { cls + rng.below(4) as usize };
                    acc += len;
                    if f < 4 {
                        cuts[f] = acc;
                    }
                }
                judge_lens(&mut rep, &pool2[..acc], cuts, &salt, &key, "size_class_arrangements");
                rep.cell(&[4000, code as u64]);
                m += 1;
                c += 16;
            }
            rep.count("size_class_arrangements", m);
            judge_big(&mut rep, BIG_QUICK[(sh + seed as usize) % 16], rng.next(), "above_2MiB");
            if big > 4 && sh < BIG_THOROUGH.len() {
                judge_big(&mut rep, BIG_THOROUGH[sh], rng.next(), "above_256MiB");
            }
        }
        // consecutive calls with related salts / keys on this thread
        {
            let rounds = if n_sizes < 10 { 3 } else if big > 4 { 6000 } else { 1500 };
            let mut m = 0u64;
            for i in 0..rounds {
                let len = [0usize, 1, 20, 64, 100, 300][i % 6];
                let data = rng.bytes(len);
                let s0: [u8; 16] = rng.arr();
                let k0: [u8; 32] = rng.arr();
                let mut salts = vec![s0];
                let mut keys = vec![k0];
                let mut names = Vec::new();
                let steps = 1 + (i % 3);
                for st in 0..steps {
                    let t = i / 2 + st * 5;
                    if i % 2 == 0 {
                        let (v, nm) = relative(salts.last().unwrap(), t, &mut rng);
                        salts.push(v.try_into().unwrap());
                        keys.push(k0);
                        names.push(nm);
                    } else {
                        let (v, nm) = relative(keys.last().unwrap(), t, &mut rng);
                        keys.push(v.try_into().unwrap());
                        salts.push(s0);
                        names.push(nm);
                    }
                }
                // and back to the first pair: an evicted / overwritten entry must not come back wrong
                salts.push(s0);
                keys.push(k0);
                let class = if i % 2 == 0 { "related_salts" } else { "related_keys" };
                judge_history(&mut rep, &data, &salts, &keys, i, class);
                for nm in names {
                    rep.hist(&format!("history_{}", class), nm, 1);
                    rep.cell(&[4100, (i % 2) as u64, (t_code(nm)) as u64, (i % 3) as u64, len as u64]);
                }
                m += salts.len() as u64;
            }
            rep.count("history_calls_with_related_salts_or_keys", m);
        }
        // reconnect variant
        for _ in 0..(if n_sizes < 10 { 5 } else { 200 }) {
            let salt: [u8; 16] = rng.arr();
            rep.ev(1);
            match guard(|| reconnect_integrity_check(&salt)) {
                Err(e) => rep.violation("c17:panic:reconnect", e, format!("reconnect {}", hex(&salt))),
                Ok(h) => {
                    if h != sha1(&[&salt, &[0u8; 20]]) {
                        rep.violation("c17:reconnect_differs", format!("reconnect_integrity_check({}) = {}, expected SHA1(salt | 0^20)", hex(&salt), hex(&h)), format!("reconnect {}", hex(&salt)));
                    }
                }
            }
            rep.count("reconnect_checks", 1);
        }
        rep
    });
    total.merge(r);
    total
}

pub fn replay(args: &[String]) -> Rep {
    let mut rep = Rep::new();
    if args.len() >= 8 && args[0] == "dist" {
        let data = unhex(&args[1]);
        let c: Vec<usize> = (2..6).map(|i| args[i].parse().unwrap_or(0).min(data.len())).collect();
        let salt: [u8; 16] = unhex(&args[6]).try_into().unwrap_or([0; 16]);
        let key: [u8; 32] = unhex(&args[7]).try_into().unwrap_or([0; 32]);
        judge(&mut rep, &data, [c[0], c[1], c[2], c[3]], &salt, &key, "replay");
    } else if args.len() >= 6 && args[0] == "lens" {
        let lens: Vec<usize> = (1..6).map(|i| args[i].parse().unwrap_or(0)).collect();
        let mut rng = Rng::new(lens.iter().sum::<usize>() as u64, 0x1e75);
        let data = rng.bytes(lens.iter().sum());
        let c0 = lens[0];
        let c1 = c0 + lens[1];
        let c2 = c1 + lens[2];
        let c3 = c2 + lens[3];
        judge_lens(&mut rep, &data, [c0, c1, c2, c3], &rng.arr(), &rng.arr(), "replay");
    } else if args.len() >= 4 && args[0] == "big" {
        judge_big(&mut rep, args[1].parse().unwrap_or(0), args[2].parse().unwrap_or(0), "replay");
    } else if args.len() >= 5 && args[0] == "hist" {
        let which: usize = args[1].parse().unwrap_or(0);
        let data = unhex(&args[2]);
        let salts: Vec<[u8; 16]> = args[3].split(',').map(|x| unhex(x).try_into().unwrap_or([0; 16])).collect();
        let keys: Vec<[u8; 32]> = args[4].split(',').map(|x| unhex(x).try_into().unwrap_or([0; 32])).collect();
        judge_history(&mut rep, &data, &salts, &keys, which, "replay");
    } else if args.len() >= 2 && args[0] == "reconnect" {
        let salt: [u8; 16] = unhex(&args[1]).try_into().unwrap_or([0; 16]);
        rep.ev(1);
        if reconnect_integrity_check(&salt) != sha1(&[&salt, &[0u8; 20]]) {
            rep.violation("c17:reconnect_differs", "reconnect check differs".into(), format!("reconnect {}", hex(&salt)));
        }
    }
    rep
}
