//! Library objects are obtained only the way a user can obtain them.
use wow_srp::normalized_string::NormalizedString;
use wow_srp::{tbc_header, vanilla_header, wrath_header};

pub fn name() -> NormalizedString {
    NormalizedString::new("MONITOR").unwrap()
}

/// (client side, server side) for one session key
pub fn vanilla_pair(k: [u8; 40]) -> (vanilla_header::HeaderCrypto, vanilla_header::HeaderCrypto) {
    let n = name();
    let cs = vanilla_header::ProofSeed::new();
    let ss = vanilla_header::ProofSeed::new();
    let csv = cs.seed();
    let (proof, c) = cs.into_client_header_crypto(&n, k, ss.seed());
    let s = ss
        .into_server_header_crypto(&n, k, proof, csv)
        .expect("honest world login refused (C06's business)");
    (c, s)
}

pub fn tbc_pair(k: [u8; 40]) -> (tbc_header::HeaderCrypto, tbc_header::HeaderCrypto) {
    let n = name();
    let cs = tbc_header::ProofSeed::new();
    let ss = tbc_header::ProofSeed::new();
    let csv = cs.seed();
    let (proof, c) = cs.into_client_header_crypto(&n, k, ss.seed());
    let s = ss
        .into_server_header_crypto(&n, k, proof, csv)
        .expect("honest world login refused (C06's business)");
    (c, s)
}

pub fn wrath_pair(k: [u8; 40]) -> (wrath_header::ClientCrypto, wrath_header::ServerCrypto) {
    let n = name();
    let cs = wrath_header::ProofSeed::new();
    let ss = wrath_header::ProofSeed::new();
    let csv = cs.seed();
    let (proof, c) = cs.into_client_header_crypto(&n, k, ss.seed());
    let s = ss
        .into_server_header_crypto(&n, k, proof, csv)
        .expect("honest world login refused (C06's business)");
    (c, s)
}
