//! Shared plumbing of the in-process monitors: PRNG, reporter, panic guard,
//! and the hand-written primitives the reference models are built from
//! (HMAC-SHA1 from the SHA-1 digest, textbook RC4).

use sha1::{Digest, Sha1};
use std::collections::{BTreeMap, HashSet};
use std::panic::{catch_unwind, AssertUnwindSafe};

// ---------------------------------------------------------------------------
// deterministic PRNG (splitmix64)

#[derive(Clone)]
pub struct Rng(pub u64);

impl Rng {
    pub fn new(seed: u64, stream: u64) -> Self {
        let mut r = Rng(seed ^ stream.wrapping_mul(0x9E37_79B9_7F4A_7C15) ^ 0xD1B5_4A32_D192_ED03);
        r.next();
        r.next();
        r
    }
    pub fn next(&mut self) -> u64 {
        self.0 = self.0.wrapping_add(0x9E37_79B9_7F4A_7C15);
        let mut z = self.0;
        z = (z ^ (z >> 30)).wrapping_mul(0xBF58_476D_1CE4_E5B9);
        z = (z ^ (z >> 27)).wrapping_mul(0x94D0_49BB_1331_11EB);
        z ^ (z >> 31)
    }
    pub fn below(&mut self, n: u64) -> u64 {
        if n == 0 {
            0
        } else {
            self.next() % n
        }
    }
    pub fn range(&mut self, lo: u64, hi_incl: u64) -> u64 {
        lo + self.below(hi_incl - lo + 1)
    }
    pub fn byte(&mut self) -> u8 {
        (self.next() >> 32) as u8
    }
    pub fn bytes(&mut self, n: usize) -> Vec<u8> {
        let mut v = Vec::with_capacity(n);
        while v.len() < n {
            let x = self.next().to_le_bytes();
            let k = (n - v.len()).min(8);
            v.extend_from_slice(&x[..k]);
        }
        v
    }
    pub fn arr<const N: usize>(&mut self) -> [u8; N] {
        let mut a = [0u8; N];
        let v = self.bytes(N);
        a.copy_from_slice(&v);
        a
    }
    pub fn chance(&mut self, num: u64, den: u64) -> bool {
        self.below(den) < num
    }
    pub fn pick<'a, T>(&mut self, v: &'a [T]) -> &'a T {
        &v[self.below(v.len() as u64) as usize]
    }
}

pub fn hex(b: &[u8]) -> String {
    let mut s = String::with_capacity(b.len() * 2);
    for x in b {
        s.push_str(&format!("{:02x}", x));
    }
    s
}

pub fn unhex(s: &str) -> Vec<u8> {
    let b = s.as_bytes();
    let mut out = Vec::new();
    let nib = |c: u8| -> u8 {
        match c {
            b'0'..=b'9' => c - b'0',
            b'a'..=b'f' => c - b'a' + 10,
            b'A'..=b'F' => c - b'A' + 10,
            _ => 0,
        }
    };
    for p in b.chunks(2) {
        if p.len() == 2 {
            out.push(nib(p[0]) << 4 | nib(p[1]));
        }
    }
    out
}

// ---------------------------------------------------------------------------
// panic guard

thread_local! {
    static LAST_PANIC: std::cell::RefCell<Option<String>> = std::cell::RefCell::new(None);
}

pub fn install_panic_hook() {
    std::panic::set_hook(Box::new(|info| {
        let s = format!("{}", info).replace(['\n', '\t'], " ");
        LAST_PANIC.with(|p| *p.borrow_mut() = Some(s));
    }));
}

/// Run a library call; a panic becomes Err(message).
pub fn guard<T>(f: impl FnOnce() -> T) -> Result<T, String> {
    match catch_unwind(AssertUnwindSafe(f)) {
        Ok(v) => Ok(v),
        Err(_) => Err(LAST_PANIC
            .with(|p| p.borrow_mut().take())
            .unwrap_or_else(|| "panic".to_string())),
    }
}

// ---------------------------------------------------------------------------
// reporter

#[derive(Default)]
pub struct Rep {
    pub evals: u64,
    pub distinct_extra: u64,
    pub cells: HashSet<u64>,
    pub counters: BTreeMap<String, u64>,
    pub hists: BTreeMap<(String, String), u64>,
    pub samples: Vec<String>,
    pub violations: Vec<(String, String, String, u64)>,
    pub inconclusive: Vec<String>,
    pub notes: Vec<String>,
    pub exhaustive: Option<bool>,
    pub rule: String,
}

pub fn cell_hash(parts: &[u64]) -> u64 {
    let mut h = 0xcbf2_9ce4_8422_2325u64;
    for p in parts {
        for b in p.to_le_bytes() {
            h ^= b as u64;
            h = h.wrapping_mul(0x1000_0000_01b3);
        }
        h ^= 0xff;
        h = h.wrapping_mul(0x1000_0000_01b3);
    }
    h
}

impl Rep {
    pub fn new() -> Self {
        Self::default()
    }
    pub fn ev(&mut self, n: u64) {
        self.evals += n;
    }
    pub fn cell(&mut self, parts: &[u64]) {
        self.cells.insert(cell_hash(parts));
    }
    pub fn count(&mut self, name: &str, n: u64) {
        *self.counters.entry(name.to_string()).or_insert(0) += n;
    }
    pub fn hist(&mut self, name: &str, bucket: impl ToString, n: u64) {
        *self
            .hists
            .entry((name.to_string(), bucket.to_string()))
            .or_insert(0) += n;
    }
    pub fn sample(&mut self, s: String) {
        if self.samples.len() < 6 {
            self.samples.push(s);
        }
    }
    /// sig: stable signature (oracle + input class); replay: arguments for `wsm <prop> --replay ...`
    pub fn violation(&mut self, sig: &str, what: String, replay: String) {
        for v in self.violations.iter_mut() {
            if v.0 == sig {
                v.3 += 1;
                return;
            }
        }
        self.violations
            .push((sig.to_string(), what.replace(['\n', '\t'], " "), replay, 1));
    }
    pub fn inconc(&mut self, s: String) {
        if !self.inconclusive.contains(&s) {
            self.inconclusive.push(s);
        }
    }
    pub fn note(&mut self, s: String) {
        if !self.notes.contains(&s) {
            self.notes.push(s);
        }
    }
    pub fn merge(&mut self, o: Rep) {
        self.evals += o.evals;
        self.distinct_extra += o.distinct_extra;
        self.cells.extend(o.cells);
        for (k, v) in o.counters {
            *self.counters.entry(k).or_insert(0) += v;
        }
        for (k, v) in o.hists {
            *self.hists.entry(k).or_insert(0) += v;
        }
        for s in o.samples {
            self.sample(s);
        }
        for v in o.violations {
            let mut found = false;
            for w in self.violations.iter_mut() {
                if w.0 == v.0 {
                    w.3 += v.3;
                    found = true;
                }
            }
            if !found {
                self.violations.push(v);
            }
        }
        for s in o.inconclusive {
            self.inconc(s);
        }
        for s in o.notes {
            self.note(s);
        }
        self.exhaustive = match (self.exhaustive, o.exhaustive) {
            (None, x) => x,
            (x, None) => x,
            (Some(a), Some(b)) => Some(a && b),
        };
        if self.rule.is_empty() {
            self.rule = o.rule;
        }
    }
    pub fn print(&self) {
        println!("EVAL\t{}", self.evals);
        println!("DISTINCT\t{}", self.cells.len() as u64 + self.distinct_extra);
        if !self.rule.is_empty() {
            println!("RULE\t{}", self.rule.replace(['\n', '\t'], " "));
        }
        for s in &self.samples {
            println!("SAMPLE\t{}", s.replace(['\n', '\t'], " "));
        }
        for (k, v) in &self.counters {
            println!("COUNTER\t{}\t{}", k, v);
        }
        for ((k, b), v) in &self.hists {
            println!("HIST\t{}\t{}\t{}", k, b, v);
        }
        for (sig, what, replay, n) in &self.violations {
            println!("VIOLATION\t{}\t{} (seen {} times)\t{}", sig, what, n, replay);
        }
        for s in &self.inconclusive {
            println!("INCONCLUSIVE\t{}", s.replace(['\n', '\t'], " "));
        }
        for s in &self.notes {
            println!("NOTE\t{}", s.replace(['\n', '\t'], " "));
        }
        if let Some(e) = self.exhaustive {
            println!("EXHAUSTIVE\t{}", if e { 1 } else { 0 });
        }
    }
}

/// Run `f(shard)` for shard in 0..shards on up to `threads` OS threads and merge.
pub fn par<F>(shards: usize, threads: usize, f: F) -> Rep
where
    F: Fn(usize) -> Rep + Sync,
{
    let next = std::sync::atomic::AtomicUsize::new(0);
    let total = std::sync::Mutex::new(Rep::new());
    std::thread::scope(|s| {
        for _ in 0..threads.min(shards).max(1) {
            s.spawn(|| loop {
                let i = next.fetch_add(1, std::sync::atomic::Ordering::SeqCst);
                if i >= shards {
                    break;
                }
                let r = match guard(|| f(i)) {
                    Ok(r) => r,
                    Err(e) => {
                        let mut r = Rep::new();
                        if e.contains("/repo/") {
                            // the panic comes from library code reached through a call the monitor did not expect to fail
                            // (object construction, a model-independent helper): that is a finding, not a harness error
                            let prop = PROP.get().cloned().unwrap_or_else(|| "c??".to_string());
                            r.ev(1);
                            r.violation(
                                &format!("{}:panic:library_call_outside_a_guard", prop),
                                format!("library code panicked in a call the monitor makes unconditionally (shard {}): {}", i, e),
                                String::new(),
                            );
                        } else {
                            r.inconc(format!("monitor shard {} itself panicked (harness error): {}", i, e));
                        }
                        r
                    }
                };
                total.lock().unwrap().merge(r);
            });
        }
    });
    total.into_inner().unwrap()
}

pub static PROP: std::sync::OnceLock<String> = std::sync::OnceLock::new();

pub fn threads() -> usize {
    std::thread::available_parallelism().map(|n| n.get()).unwrap_or(4).min(16)
}

// ---------------------------------------------------------------------------
// model primitives

pub fn sha1(parts: &[&[u8]]) -> [u8; 20] {
    let mut h = Sha1::new();
    for p in parts {
        h.update(p);
    }
    h.finalize().into()
}

/// HMAC-SHA1 built by hand (RFC 2104) from the SHA-1 digest primitive.
pub fn hmac_sha1(key: &[u8], parts: &[&[u8]]) -> [u8; 20] {
    let mut k = [0u8; 64];
    if key.len() > 64 {
        let d = sha1(&[key]);
        k[..20].copy_from_slice(&d);
    } else {
        k[..key.len()].copy_from_slice(key);
    }
    let mut ipad = [0x36u8; 64];
    let mut opad = [0x5cu8; 64];
    for i in 0..64 {
        ipad[i] ^= k[i];
        opad[i] ^= k[i];
    }
    let mut inner = Sha1::new();
    inner.update(ipad);
    for p in parts {
        inner.update(p);
    }
    let inner: [u8; 20] = inner.finalize().into();
    sha1(&[&opad, &inner])
}

/// Textbook RC4 (KSA + PRGA), written from the definition.
#[derive(Clone)]
pub struct ModelRc4 {
    s: [u8; 256],
    i: usize,
    j: usize,
}

impl ModelRc4 {
    pub fn new(key: &[u8]) -> Self {
        let mut s = [0u8; 256];
        for (i, x) in s.iter_mut().enumerate() {
            *x = i as u8;
        }
        let mut j = 0usize;
        for i in 0..256 {
            j = (j + s[i] as usize + key[i % key.len()] as usize) % 256;
            s.swap(i, j);
        }
        Self { s, i: 0, j: 0 }
    }
    pub fn next_byte(&mut self) -> u8 {
        self.i = (self.i + 1) % 256;
        self.j = (self.j + self.s[self.i] as usize) % 256;
        self.s.swap(self.i, self.j);
        self.s[(self.s[self.i] as usize + self.s[self.j] as usize) % 256]
    }
    pub fn skip(&mut self, n: usize) {
        for _ in 0..n {
            self.next_byte();
        }
    }
    pub fn xor(&mut self, data: &mut [u8]) {
        for d in data {
            *d ^= self.next_byte();
        }
    }
}

/// Vanilla / TBC recurrence model: c_n = (x_n ^ key[n mod L]) + c_{n-1}.
#[derive(Clone)]
pub struct ModelAdd {
    pub key: Vec<u8>,
    pub pos: usize,
    pub prev: u8,
}

impl ModelAdd {
    pub fn new(key: &[u8]) -> Self {
        Self { key: key.to_vec(), pos: 0, prev: 0 }
    }
    pub fn enc_byte(&mut self, x: u8) -> u8 {
        let c = (x ^ self.key[self.pos]).wrapping_add(self.prev);
        self.pos = (self.pos + 1) % self.key.len();
        self.prev = c;
        c
    }
    pub fn dec_byte(&mut self, c: u8) -> u8 {
        let x = c.wrapping_sub(self.prev) ^ self.key[self.pos];
        self.pos = (self.pos + 1) % self.key.len();
        self.prev = c;
        x
    }
    pub fn enc(&mut self, d: &mut [u8]) {
        for b in d {
            *b = self.enc_byte(*b);
        }
    }
    pub fn dec(&mut self, d: &mut [u8]) {
        for b in d {
            *b = self.dec_byte(*b);
        }
    }
}

pub const TBC_SEED: [u8; 16] = [
    0x38, 0xA7, 0x83, 0x15, 0xF8, 0x92, 0x25, 0x30, 0x71, 0x98, 0x67, 0xB1, 0x8C, 0x04, 0xE2, 0xAA,
];
/// client -> server
pub const WRATH_S: [u8; 16] = [
    0xC2, 0xB3, 0x72, 0x3C, 0xC6, 0xAE, 0xD9, 0xB5, 0x34, 0x3C, 0x53, 0xEE, 0x2F, 0x43, 0x67, 0xCE,
];
/// server -> client
pub const WRATH_R: [u8; 16] = [
    0xCC, 0x98, 0xAE, 0x04, 0xE8, 0x97, 0xEA, 0xCA, 0x12, 0xDD, 0xC0, 0x93, 0x42, 0x91, 0x53, 0x57,
];

pub fn wrath_model(direction: &[u8; 16], k: &[u8; 40]) -> ModelRc4 {
    let key = hmac_sha1(direction, &[k]);
    let mut r = ModelRc4::new(&key);
    r.skip(1024);
    r
}

pub fn tbc_key(k: &[u8; 40]) -> [u8; 20] {
    hmac_sha1(&TBC_SEED, &[k])
}

pub fn world_proof(name: &str, client_seed: u32, server_seed: u32, k: &[u8; 40]) -> [u8; 20] {
    sha1(&[
        name.as_bytes(),
        &[0, 0, 0, 0],
        &client_seed.to_le_bytes(),
        &server_seed.to_le_bytes(),
        k,
    ])
}

/// Chunk-size menu of the stream monitors (DESIGN.md C07).
pub fn chunk_len(r: &mut Rng, remaining: usize) -> usize {
    const MENU: [usize; 16] = [0, 1, 2, 3, 4, 5, 6, 39, 40, 41, 79, 80, 81, 255, 256, 257];
    let n = match r.below(10) {
        0..=5 => MENU[r.below(MENU.len() as u64) as usize],
        6..=8 => r.below(4097) as usize,
        _ => remaining, // one huge
    };
    n.min(remaining)
}

pub const VECTORS_DIR: &str = concat!(env!("CARGO_MANIFEST_DIR"), "/../../vectors");
