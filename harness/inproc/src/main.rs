//! wsm — E2 in-process monitors (DESIGN.md 3.3).
//!
//!   wsm <PROPERTY> --tier quick|thorough|miri --seed N
//!   wsm <PROPERTY> --replay <case descriptor...>
//!
//! Output: a line protocol (EVAL, DISTINCT, RULE, SAMPLE, COUNTER, HIST,
//! VIOLATION, INCONCLUSIVE, NOTE, EXHAUSTIVE) parsed by ./check.
//! Exit status: 0 no violation, 1 violation(s), 2 usage error.
mod c04;
mod c10;
mod c11;
mod c12;
mod c13;
mod c14;
mod c16;
mod c17;
mod c18;
mod faultio;
mod objs;
mod selfcheck;
mod streams;
mod util;

use util::Rep;

fn main() {
    util::install_panic_hook();
    let args: Vec<String> = std::env::args().skip(1).collect();
    if args.is_empty() {
        eprintln!("usage: wsm <PROPERTY> --tier quick|thorough|miri --seed N | wsm <PROPERTY> --replay ...");
        std::process::exit(2);
    }
    let prop = args[0].clone();
    let _ = util::PROP.set(prop.to_lowercase());
    let mut tier = "quick".to_string();
    let mut seed = 1u64;
    let mut replay: Option<Vec<String>> = None;
    let mut i = 1;
    while i < args.len() {
        match args[i].as_str() {
            "--tier" => {
                tier = args[i + 1].clone();
                i += 2;
            }
            "--seed" => {
                seed = args[i + 1].parse().unwrap_or(1);
                i += 2;
            }
            "--replay" => {
                replay = Some(args[i + 1..].to_vec());
                break;
            }
            _ => {
                eprintln!("unknown argument {}", args[i]);
                std::process::exit(2);
            }
        }
    }
    if tier != "miri" && matches!(prop.as_str(), "C07" | "C08" | "C09" | "C10" | "C11" | "C12") {
        match selfcheck::ciphers() {
            Ok(n) => eprintln!("cipher models agree with {} frozen vectors", n),
            Err(e) => {
                println!("INCONCLUSIVE\tmodel self-check failed: {}", e);
                std::process::exit(3);
            }
        }
    }
    if tier != "miri" {
        let r = match prop.as_str() {
            "C16" => Some(c16::self_check()),
            "C17" => Some(c17::self_check()),
            "C18" => Some(c18::self_check()),
            _ => None,
        };
        match r {
            Some(Ok(n)) => eprintln!("model agrees with {} frozen vectors", n),
            Some(Err(e)) => {
                println!("INCONCLUSIVE\tmodel self-check failed: {}", e);
                std::process::exit(3);
            }
            None => {}
        }
    }
    let rep: Rep = match (prop.as_str(), &replay) {
        ("C04", None) => c04::run(&tier, seed),
        ("C04", Some(a)) => c04::replay(a),
        ("C07", None) => streams::run_add(streams::vanilla_kind(), &tier, seed),
        ("C07", Some(a)) => streams::replay_add(streams::vanilla_kind(), a),
        ("C08", None) => streams::run_add(streams::tbc_kind(), &tier, seed),
        ("C08", Some(a)) => streams::replay_add(streams::tbc_kind(), a),
        ("C09", None) => streams::run_wrath(&tier, seed),
        ("C09", Some(a)) => streams::replay_wrath(a),
        ("C10", None) => c10::run(&tier, seed),
        ("C10", Some(a)) => c10::replay(a),
        ("C11", None) => c11::run(&tier, seed),
        ("C11", Some(a)) => c11::replay(a, seed),
        ("C12", None) => c12::run(&tier, seed),
        ("C12", Some(a)) => c12::replay(a),
        ("C13", None) => c13::run(&tier, seed),
        ("C13", Some(a)) => c13::replay(a),
        ("C14", None) => c14::run(&tier, seed),
        ("C14", Some(a)) => c14::replay(a),
        ("C16", None) => c16::run(&tier, seed),
        ("C16", Some(a)) => c16::replay(a),
        ("C17", None) => c17::run(&tier, seed),
        ("C17", Some(a)) => c17::replay(a),
        ("C18", None) => c18::run(&tier, seed),
        ("C18", Some(a)) => c18::replay(a),
        _ => {
            eprintln!("unknown property {}", prop);
            std::process::exit(2);
        }
    };
    rep.print();
    std::process::exit(if rep.violations.is_empty() { 0 } else { 1 });
}
