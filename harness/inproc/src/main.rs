//! wsm — E2 in-process monitors (DESIGN.md 3.3).
//!
//!   wsm <PROPERTY> --tier quick|thorough|miri --seed N
//!   wsm <PROPERTY> --replay <case descriptor...>
//!
//! Output: a line protocol (EVAL, DISTINCT, RULE, SAMPLE, COUNTER, HIST,
//! VIOLATION, INCONCLUSIVE, NOTE, EXHAUSTIVE) parsed by ./check.
//! Exit status: 0 no violation, 1 violation(s), 2 usage error.
mod c04;
mod objs;
mod util;

use util::Rep;

fn main() {
    util::install_panic_hook();
    let args: Vec<String> = std::env::args().skip(1).collect();
    if args.is_empty() {
        eprintln!("usage: wsm <PROPERTY> --tier quick|thorough|miri --seed N | wsm <PROPERTY> --replay ...");
        std::process::exit(2);
    }
    let prop = args[0].clone();
    let mut tier = "quick".to_string();
    let mut seed = 1u64;
    let mut replay: Option<Vec<String>> = None;
    let mut i = 1;
    while i < args.len() {
        match args[i].as_str() {
            "--tier" => {
                tier = args[i + 1].clone();
                i += 2;
            }
            "--seed" => {
                seed = args[i + 1].parse().unwrap_or(1);
                i += 2;
            }
            "--replay" => {
                replay = Some(args[i + 1..].to_vec());
                break;
            }
            _ => {
                eprintln!("unknown argument {}", args[i]);
                std::process::exit(2);
            }
        }
    }
    let rep: Rep = match (prop.as_str(), &replay) {
        ("C04", None) => c04::run(&tier, seed),
        ("C04", Some(a)) => c04::replay(a),
        _ => {
            eprintln!("unknown property {}", prop);
            std::process::exit(2);
        }
    };
    rep.print();
    std::process::exit(if rep.violations.is_empty() { 0 } else { 1 });
}
