fn main(){}
