//! C16 — PIN hashes follow the keypad-remap scheme; verification is exact.
use crate::util::*;
use wow_srp::pin::{calculate_hash, verify_client_pin_hash};

const FACT10: u32 = 3_628_800;

/// Keypad layout from the statement: factorial-base selection without replacement from 0..9 using seed mod 10!.
pub fn layout(seed: u32) -> [u8; 10] {
    let mut avail: Vec<u8> = (0..10).collect();
    let mut s = seed % FACT10;
    let mut out = [0u8; 10];
    for (i, n) in (1..=10u32).rev().enumerate() {
        let r = (s % n) as usize;
        s /= n;
        out[i] = avail.remove(r);
    }
    out
}

pub fn digits(pin: u32) -> Vec<u8> {
    if pin == 0 {
        return vec![];
    }
    pin.to_string().bytes().map(|b| b - b'0').collect()
}

pub fn model_hash(pin: u32, seed: u32, server_salt: &[u8; 16], client_salt: &[u8; 16]) -> Option<[u8; 20]> {
    let d = digits(pin);
    if d.len() < 4 || d.len() > 10 {
        return None;
    }
    let lay = layout(seed);
    let ascii: Vec<u8> = d.iter().map(|x| lay.iter().position(|y| y == x).unwrap() as u8 + 0x30).collect();
    let inner = sha1(&[server_salt, &ascii]);
    Some(sha1(&[client_salt, &inner]))
}

/// The scheme applied to a digit string of any length (what a PIN without a hash "would" hash to).
fn hash_of_digits(d: &[u8], seed: u32, server_salt: &[u8; 16], client_salt: &[u8; 16]) -> [u8; 20] {
    let lay = layout(seed);
    let ascii: Vec<u8> = d.iter().map(|x| lay.iter().position(|y| y == x).unwrap() as u8 + 0x30).collect();
    let inner = sha1(&[server_salt, &ascii]);
    sha1(&[client_salt, &inner])
}

/// A PIN that has no hash must not verify against anything: the hashes of stand-in PINs a careless implementation might
/// substitute (longest, shortest, padded, zero-extended ...), and the would-be hash of its own short digit string.
fn invalid_pin_sweep(rep: &mut Rep, pin: u32, seed: u32, ss: &[u8; 16], cs: &[u8; 16]) {
    let d = digits(pin);
    let mut cands: Vec<[u8; 20]> = vec![[0u8; 20], [0xff; 20], hash_of_digits(&d, seed, ss, cs), hash_of_digits(&[], seed, ss, cs)];
    let mut padded = vec![0u8; 4usize.saturating_sub(d.len())];
    padded.extend_from_slice(&d);
    cands.push(hash_of_digits(&padded, seed, ss, cs));
    for stand_in in [u32::MAX, u32::MAX - 1, 1000, 1001, 9999, 10_000, 1_000_000_000, 999_999_999, 4_000_000_000, 1234, 1111, pin + 1000, pin.wrapping_mul(10), pin.wrapping_mul(1000), 1000 * (pin % 10 + 1), 2_147_483_647, 2_147_483_648] {
        if let Some(h) = model_hash(stand_in, seed, ss, cs) {
            cands.push(h);
        }
    }
    for h in cands {
        judge_verify(rep, pin, seed, ss, cs, &h, "invalid_pin_stand_in_hash");
    }
    rep.count("invalid_pin_stand_in_sweeps", 1);
}

pub fn self_check() -> Result<u64, String> {
    let p = format!("{}/pin/regression.txt", VECTORS_DIR);
    let s = std::fs::read_to_string(&p).map_err(|e| format!("{}: {}", p, e))?;
    let mut n = 0;
    for l in s.lines().take(250) {
        let f: Vec<&str> = l.split_whitespace().collect();
        if f.len() < 5 {
            continue;
        }
        let pin: u32 = f[0].parse().map_err(|_| "bad pin")?;
        let seed: u32 = f[1].parse().map_err(|_| "bad seed")?;
        let ss: [u8; 16] = unhex(f[2]).try_into().map_err(|_| "bad salt")?;
        let cs: [u8; 16] = unhex(f[3]).try_into().map_err(|_| "bad salt")?;
        let want = unhex(f[4]);
        let a = model_hash(pin, seed, &ss, &cs).map(|h| h.to_vec());
        if a.as_deref() != Some(&want[..]) {
            return Err(format!("PIN model disagrees with frozen vector {}", l));
        }
        n += 1;
    }
    Ok(n)
}

fn judge(rep: &mut Rep, pin: u32, seed: u32, ss: &[u8; 16], cs: &[u8; 16], class: &str) -> Option<[u8; 20]> {
    rep.ev(1);
    let replay = || format!("pin {} {} {} {}", pin, seed, hex(ss), hex(cs));
    let want = model_hash(pin, seed, ss, cs);
    match guard(|| calculate_hash(pin, seed, ss, cs)) {
        Err(e) => {
            rep.violation(&format!("c16:panic:calculate_hash:{}", class), format!("calculate_hash({}, {}, ..) panicked: {}", pin, seed, e), replay());
            None
        }
        Ok(got) => {
            if got != want {
                let kind = match (&want, &got) {
                    (None, Some(_)) => "hash_for_invalid_pin",
                    (Some(_), None) => "no_hash_for_valid_pin",
                    _ => "hash_differs",
                };
                rep.violation(
                    &format!("c16:{}:{}", kind, class),
                    format!("calculate_hash(pin={}, seed={} (mod 10! = {})) = {:?}, scheme gives {:?}", pin, seed, seed % FACT10, got.map(|h| hex(&h)), want.map(|h| hex(&h))),
                    replay(),
                );
            }
            want
        }
    }
}

fn judge_verify(rep: &mut Rep, pin: u32, seed: u32, ss: &[u8; 16], cs: &[u8; 16], presented: &[u8; 20], class: &str) {
    rep.ev(1);
    let want = model_hash(pin, seed, ss, cs).map_or(false, |h| h == *presented);
    match guard(|| verify_client_pin_hash(pin, seed, ss, cs, presented)) {
        Err(e) => rep.violation(&format!("c16:panic:verify:{}", class), format!("verify_client_pin_hash panicked: {}", e), format!("verify {} {} {} {} {}", pin, seed, hex(ss), hex(cs), hex(presented))),
        Ok(got) => {
            if got != want {
                rep.violation(
                    &format!("c16:verify_{}:{}", if got { "accepts_wrong" } else { "rejects_right" }, class),
                    format!("verify_client_pin_hash(pin={}, seed={}, presented={}) = {}, expected {}", pin, seed, hex(presented), got, want),
                    format!("verify {} {} {} {} {}", pin, seed, hex(ss), hex(cs), hex(presented)),
                );
            }
        }
    }
}

pub fn run(tier: &str, seed: u64) -> Rep {
    let mut total = Rep::new();
    total.rule = "calculate_hash / verify_client_pin_hash against SHA1(client_salt | SHA1(server_salt | remapped digits as ASCII)) with the \
layout chosen without replacement by seed mod 10!: all 3,628,800 residues through the pandigital PIN 1023456789, seeds s + j*10!, all PINs \
0..=99,999, powers of ten and neighbours, u32::MAX, random PINs x seeds x salts; verification with the right hash, all 160 bit flips, \
neighbouring PINs' hashes, invalid PINs. distinct = distinct (pin, seed mod 10!) pairs"
        .to_string();
    let ss0: [u8; 16] = *b"server-salt-0123";
    let cs0: [u8; 16] = *b"client-salt-4567";
    // ---- all residues
    let shards = if tier == "miri" { 4usize } else { 64usize };
    let stride: u32 = if tier == "miri" { 120_000 } else { 1 };
    let r = par(shards, threads(), |sh| {
        let mut rep = Rep::new();
        let per = (FACT10 as usize + shards - 1) / shards;
        let lo = (sh * per) as u32;
        let hi = ((sh + 1) * per).min(FACT10 as usize) as u32;
        let mut res = lo;
        let mut seen_layout_hash = std::collections::HashSet::new();
        while res < hi {
            // the pandigital PIN's hash depends on the whole permutation
            judge(&mut rep, 1_023_456_789, res, &ss0, &cs0, "all_residues");
            let l = layout(res);
            seen_layout_hash.insert(l);
            res += stride;
        }
        rep.count("residues_enumerated", ((hi - lo) / stride) as u64);
        rep.distinct_extra += seen_layout_hash.len() as u64;
        rep.count("distinct_model_layouts", seen_layout_hash.len() as u64);
        rep
    });
    total.merge(r);
    if tier != "miri" {
        total.exhaustive = Some(true);
        total.note("all 3,628,800 residues of the grid seed modulo 10! were driven through the pandigital PIN".to_string());
    }
    // ---- structurally special values as the first call in the life of a thread
    if tier != "miri" {
        let mut rep = Rep::new();
        let specials: [u32; 12] = [0, 1, u32::MAX, u32::MAX - 1, FACT10, FACT10 - 1, 1 << 22, 1 << 31, 0x8000_0001, 1_814_400, 3_628_799, 0xFFFF];
        for (i, sd) in specials.iter().enumerate() {
            for pin in [1_023_456_789u32, 1000, 9_876_543_210u64 as u32, 999] {
                let sd = *sd;
                let r = std::thread::spawn(move || {
                    let a = guard(|| calculate_hash(pin, sd, &[7u8; 16], &[9u8; 16]));
                    let b = guard(|| calculate_hash(pin, sd, &[7u8; 16], &[9u8; 16]));
                    (a, b)
                })
                .join();
                rep.ev(2);
                let want = model_hash(pin, sd, &[7u8; 16], &[9u8; 16]);
                match r {
                    Ok((Ok(a), Ok(b))) => {
                        if a != want || b != want {
                            rep.violation(
                                "c16:first_call_on_fresh_thread",
                                format!("calculate_hash(pin={}, seed={}) as the first call of a new thread gives {:?} (second call {:?}), scheme gives {:?}", pin, sd, a.map(|h| hex(&h)), b.map(|h| hex(&h)), want.map(|h| hex(&h))),
                                format!("pin {} {} {} {}", pin, sd, hex(&[7u8; 16]), hex(&[9u8; 16])),
                            );
                        }
                    }
                    _ => rep.violation("c16:panic:first_call_on_fresh_thread", format!("calculate_hash(pin={}, seed={}) panicked on a fresh thread", pin, sd), format!("pin {} {} {} {}", pin, sd, hex(&[7u8; 16]), hex(&[9u8; 16]))),
                }
                rep.cell(&[1600, i as u64, pin as u64 % 7]);
            }
        }
        rep.count("first_calls_on_fresh_threads", 48);
        total.merge(rep);
    }
    // ---- everything else
    let (n_pins, n_rand): (u32, u64) = match tier {
        "quick" => (100_000, 8_000_000),
        "thorough" => (100_000, 200_000_000),
        _ => (240, 32),
    };
    let r = par(if tier == "miri" { 2 } else { 16 }, threads(), |sh| {
        let mut rep = Rep::new();
        let mut rng = Rng::new(seed, 0x16000 + sh as u64);
        // all PINs 0..n_pins (sharded)
        let mut pin = sh as u32;
        while pin < n_pins {
            let sd = rng.next() as u32;
            judge(&mut rep, pin, sd, &ss0, &cs0, if pin < 1000 { "pin_below_1000" } else { "small_pin" });
            rep.hist("pin_digits", digits(pin).len(), 1);
            rep.distinct_extra += 1;
            if pin % 977 == 0 {
                // verification on invalid and valid PINs
                let any: [u8; 20] = rng.arr();
                judge_verify(&mut rep, pin, sd, &ss0, &cs0, &any, "any_hash");
                judge_verify(&mut rep, pin, sd, &ss0, &cs0, &[0u8; 20], "zero_hash");
            }
            pin += 16;
        }
        if sh == 0 {
            // seeds congruent modulo 10!
            for j in 0..=(if n_pins < 10_000 { 3 } else { u32::MAX / FACT10 }) {
                for s in [0u32, 1, 3_628_799, 123_456] {
                    if let Some(sd) = s.checked_add(j.wrapping_mul(FACT10)).filter(|_| (j as u64) * (FACT10 as u64) + s as u64 <= u32::MAX as u64) {
                        judge(&mut rep, 9_876_543_210u64 as u32, sd, &ss0, &cs0, "seed_plus_multiple_of_10!");
                        judge(&mut rep, 1_023_456_789, sd, &ss0, &cs0, "seed_plus_multiple_of_10!");
                        rep.distinct_extra += 1;
                    }
                }
            }
            for k in 0..10u32 {
                let p = 10u32.pow(k);
                for pin in [p, p.wrapping_sub(1), p + 1] {
                    let sd = rng.next() as u32;
                    judge(&mut rep, pin, sd, &ss0, &cs0, "power_of_ten");
                    rep.distinct_extra += 1;
                }
            }
            for pin in [u32::MAX, u32::MAX - 1, 4_000_000_000, 999, 1000, 9999, 10_000] {
                for sd in [0u32, 1, u32::MAX, FACT10 - 1, FACT10, FACT10 + 1] {
                    judge(&mut rep, pin, sd, &ss0, &cs0, "boundary");
                    rep.distinct_extra += 1;
                }
            }
        }
        // random PINs x seeds x salts, with verification sweeps
        for i in 0..n_rand / 16 {
            let pin = match rng.below(5) {
                0 => rng.below(100_000) as u32,
                1 => 1000 + rng.below(9000) as u32,
                _ => rng.next() as u32,
            };
            let sd = rng.next() as u32;
            let ss: [u8; 16] = rng.arr();
            let cs: [u8; 16] = rng.arr();
            let h = judge(&mut rep, pin, sd, &ss, &cs, "random");
            rep.distinct_extra += 1;
            if i % 64 == 0 {
                if let Some(h) = h {
                    judge_verify(&mut rep, pin, sd, &ss, &cs, &h, "right_hash");
                    let full = i % 4096 == 0;
                    for bit in 0..160 {
                        if full || bit % 37 == (i % 37) as usize {
                            let mut x = h;
                            x[bit / 8] ^= 1 << (bit % 8);
                            judge_verify(&mut rep, pin, sd, &ss, &cs, &x, "bitflip");
                        }
                    }
                    {
                        let mut x = h;
                        x.reverse();
                        judge_verify(&mut rep, pin, sd, &ss, &cs, &x, "cancelling_change");
                        let mut y = h;
                        y.rotate_left(1);
                        judge_verify(&mut rep, pin, sd, &ss, &cs, &y, "cancelling_change");
                        let mut z = h;
                        let (a, b) = ((i % 20) as usize, ((i / 20 + 7) % 20) as usize);
                        if a != b {
                            z[a] ^= 0x10;
                            z[b] ^= 0x10;
                            judge_verify(&mut rep, pin, sd, &ss, &cs, &z, "cancelling_change");
                            // differences that cancel under addition modulo 256 (a comparison that sums the XOR or the
                            // arithmetic differences instead of OR-ing them): 0x80 twice, d and 256-d, +d and -d
                            let mut z2 = h;
                            z2[a] ^= 0x80;
                            z2[b] ^= 0x80;
                            judge_verify(&mut rep, pin, sd, &ss, &cs, &z2, "cancelling_change_additive");
                            let d = 1 + (i % 255) as u8;
                            let mut z3 = h;
                            z3[a] ^= d;
                            z3[b] ^= d.wrapping_neg();
                            judge_verify(&mut rep, pin, sd, &ss, &cs, &z3, "cancelling_change_additive");
                            let mut z4 = h;
                            z4[a] = z4[a].wrapping_add(d);
                            z4[b] = z4[b].wrapping_sub(d);
                            judge_verify(&mut rep, pin, sd, &ss, &cs, &z4, "cancelling_change_additive");
                            let mut z5 = h;
                            for q in 0..4 {
                                z5[(a + 5 * q) % 20] ^= 0x40;
                            }
                            judge_verify(&mut rep, pin, sd, &ss, &cs, &z5, "cancelling_change_additive");
                        }
                    }
                    for np in [pin.wrapping_add(1), pin.wrapping_sub(1), pin / 10, pin.wrapping_mul(10)] {
                        if let Some(nh) = model_hash(np, sd, &ss, &cs) {
                            judge_verify(&mut rep, pin, sd, &ss, &cs, &nh, "neighbour_pin_hash");
                        }
                    }
                    // salts swapped, other seed
                    if let Some(x) = model_hash(pin, sd, &cs, &ss) {
                        judge_verify(&mut rep, pin, sd, &ss, &cs, &x, "salts_swapped");
                    }
                    if let Some(x) = model_hash(pin, sd.wrapping_add(1), &ss, &cs) {
                        judge_verify(&mut rep, pin, sd, &ss, &cs, &x, "other_seed");
                    }
                    rep.count("verification_sweeps", 1);
                } else {
                    let any: [u8; 20] = rng.arr();
                    judge_verify(&mut rep, pin, sd, &ss, &cs, &any, "invalid_pin_any_hash");
                    invalid_pin_sweep(&mut rep, pin, sd, &ss, &cs);
                }
            }
            if i % 512 == 0 {
                // related inputs immediately after one another (a result remembered under a partial key would show)
                let mut ss2 = ss;
                ss2[15] ^= 1;
                let mut cs2 = cs;
                cs2[0] ^= 0x80;
                let rel: [(u32, u32, [u8; 16], [u8; 16]); 9] = [
                    (pin, sd, ss2, cs),
                    (pin, sd, ss, cs2),
                    (pin, sd, cs, ss),
                    (pin.wrapping_add(1), sd, ss, cs),
                    (pin, sd.wrapping_add(1), ss, cs),
                    (pin, sd.wrapping_add(FACT10), ss, cs),
                    (pin, sd ^ 0x8000_0000, ss, cs),
                    (pin / 10, sd, ss, cs),
                    (pin, sd, ss, cs),
                ];
                // a refused call (PIN without a hash) with a seed not seen before sits between two valid calls: the call after
                // it uses that same new seed
                {
                    let s_new = rng.next() as u32;
                    let valid = 1000 + rng.below(4_000_000) as u32;
                    judge(&mut rep, valid, sd, &ss, &cs, "around_a_refused_call");
                    if i % 1024 == 0 {
                        judge(&mut rep, rng.below(1000) as u32, s_new, &ss, &cs, "around_a_refused_call");
                    } else {
                        judge_verify(&mut rep, rng.below(1000) as u32, s_new, &ss, &cs, &[0x11; 20], "around_a_refused_call");
                    }
                    let h2 = judge(&mut rep, valid, s_new, &ss, &cs, "around_a_refused_call");
                    if let Some(h2) = h2 {
                        judge_verify(&mut rep, valid, s_new, &ss, &cs, &h2, "around_a_refused_call");
                    }
                    invalid_pin_sweep(&mut rep, rng.below(1000) as u32, s_new, &ss, &cs);
                    rep.count("refused_call_between_valid_calls", 1);
                }
                for (p2, s2, a2, b2) in rel {
                    judge(&mut rep, p2, s2, &a2, &b2, "related_consecutive");
                    if let Some(hh) = model_hash(p2, s2, &a2, &b2) {
                        judge_verify(&mut rep, p2, s2, &a2, &b2, &hh, "related_consecutive");
                        // a hash of the related input must not verify for the base input
                        if (p2, s2, a2, b2) != (pin, sd, ss, cs) {
                            judge_verify(&mut rep, pin, sd, &ss, &cs, &hh, "related_consecutive");
                        }
                    }
                }
                rep.count("related_consecutive_groups", 1);
            }
            if i < 2 && sh == 0 {
                rep.sample(format!("pin={} seed={} layout={:?} -> {:?}", pin, sd, layout(sd), h.map(|x| hex(&x))));
            }
        }
        rep
    });
    total.merge(r);
    total
}

pub fn replay(args: &[String]) -> Rep {
    let mut rep = Rep::new();
    let arr16 = |s: &str| -> [u8; 16] { unhex(s).try_into().unwrap_or([0u8; 16]) };
    if args.len() >= 5 && args[0] == "pin" {
        judge(&mut rep, args[1].parse().unwrap_or(0), args[2].parse().unwrap_or(0), &arr16(&args[3]), &arr16(&args[4]), "replay");
    } else if args.len() >= 6 && args[0] == "verify" {
        let p: [u8; 20] = unhex(&args[5]).try_into().unwrap_or([0u8; 20]);
        judge_verify(&mut rep, args[1].parse().unwrap_or(0), args[2].parse().unwrap_or(0), &arr16(&args[3]), &arr16(&args[4]), &p, "replay");
    }
    rep
}
