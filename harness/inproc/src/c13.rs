//! C13 — credential strings: exactly 1..16 printable ASCII bytes, upper-cased.
use crate::util::*;
use std::collections::hash_map::DefaultHasher;
use std::convert::TryFrom;
use std::hash::{Hash, Hasher};
use wow_srp::error::NormalizedStringError;
use wow_srp::normalized_string::NormalizedString;

#[derive(Debug, PartialEq, Eq, Clone)]
enum Out {
    Ok(String),
    Len,
    Char(char),
}

/// The rule, written from the statement.
fn rule(s: &str) -> Out {
    let n = s.len();
    if n == 0 || n > 16 {
        return Out::Len;
    }
    for c in s.chars() {
        let v = c as u32;
        if !(0x20..=0x7E).contains(&v) {
            return Out::Char(c);
        }
    }
    let t: String = s.chars().map(|c| if ('a'..='z').contains(&c) { ((c as u8) - 32) as char } else { c }).collect();
    Out::Ok(t)
}

fn conv(r: Result<NormalizedString, NormalizedStringError>) -> (Out, Option<NormalizedString>) {
    match r {
        Ok(n) => (Out::Ok(n.as_ref().to_string()), Some(n)),
        Err(NormalizedStringError::StringTooLong) => (Out::Len, None),
        Err(NormalizedStringError::CharacterNotAllowed(c)) => (Out::Char(c), None),
    }
}

fn hash_of<T: Hash>(t: &T) -> u64 {
    let mut h = DefaultHasher::new();
    t.hash(&mut h);
    h.finish()
}

/// Full judgement of one input string (all constructors, views, idempotence).
fn judge(rep: &mut Rep, s: &str, class: &str, deep: bool) -> Option<NormalizedString> {
    rep.ev(1);
    let replay = || format!("str {}", hex(s.as_bytes()));
    let want = rule(s);
    let got = match guard(|| conv(NormalizedString::new(s))) {
        Ok(g) => g,
        Err(e) => {
            rep.violation(&format!("c13:panic:new:{}", class), format!("NormalizedString::new({:?}) panicked: {}", s, e), replay());
            return None;
        }
    };
    if got.0 != want {
        let kind = match (&want, &got.0) {
            (Out::Ok(_), Out::Ok(_)) => "normalised_text_differs",
            (Out::Ok(_), _) => "valid_rejected",
            (_, Out::Ok(_)) => "invalid_accepted",
            (Out::Len, _) => "length_error_expected",
            (Out::Char(_), Out::Char(_)) => "wrong_offending_char",
            (Out::Char(_), _) => "char_error_expected",
        };
        rep.violation(
            &format!("c13:{}:{}", kind, class),
            format!("NormalizedString::new({:?}) -> {:?}, the rule says {:?}", s, got.0, want),
            replay(),
        );
        return None;
    }
    if deep {
        // all constructors agree
        let others: [(&str, Result<(Out, Option<NormalizedString>), String>); 4] = [
            ("from_str", guard(|| conv(NormalizedString::from_str(s)))),
            ("from_string", guard(|| conv(NormalizedString::from_string(s.to_string())))),
            ("try_from_str", guard(|| conv(NormalizedString::try_from(s)))),
            ("try_from_string", guard(|| conv(NormalizedString::try_from(s.to_string())))),
        ];
        for (name, r) in others {
            match r {
                Err(e) => rep.violation(&format!("c13:panic:{}", name), format!("{}({:?}) panicked: {}", name, s, e), replay()),
                Ok((o, _)) => {
                    if o != want {
                        rep.violation(&format!("c13:constructors_disagree:{}", name), format!("{}({:?}) -> {:?}, new -> {:?}", name, s, o, want), replay());
                    }
                }
            }
        }
        if let (Out::Ok(t), Some(n)) = (&want, &got.1) {
            let disp = format!("{}", n);
            if &disp != t {
                rep.violation("c13:display", format!("Display shows {:?}, normalised text is {:?}", disp, t), replay());
            }
            // idempotent
            match guard(|| conv(NormalizedString::new(n.as_ref()))) {
                Ok((Out::Ok(t2), Some(n2))) => {
                    if &t2 != t || n2 != *n {
                        rep.violation("c13:not_idempotent", format!("new(as_ref(x)) != x for {:?}", s), replay());
                    }
                }
                other => rep.violation("c13:not_idempotent", format!("new(as_ref(x)) failed for {:?}: {:?}", s, other.map(|x| x.0)), replay()),
            }
            // case-insensitive
            let lower = s.to_ascii_lowercase();
            let upper = s.to_ascii_uppercase();
            match (guard(|| NormalizedString::new(&lower)), guard(|| NormalizedString::new(&upper))) {
                (Ok(Ok(a)), Ok(Ok(b))) => {
                    if a != b || a != *n || hash_of(&a) != hash_of(&b) || a.cmp(&b) != std::cmp::Ordering::Equal {
                        rep.violation("c13:case_sensitive", format!("new(lower) and new(UPPER) differ for {:?}", s), replay());
                    }
                }
                _ => rep.violation("c13:case_sensitive", format!("lower/upper variant of the valid string {:?} was rejected", s), replay()),
            }
        }
    }
    got.1
}

const FILL: &[u8; 16] = b"aB3 xY~!zQ0_mN-k";

/// Values built before any other use of the type in this process (on a thread of their own); values with the same text
/// built later, after arbitrary accepted and rejected inputs on other threads, must be indistinguishable from them.
fn reference_texts() -> Vec<String> {
    let mut v: Vec<String> = Vec::new();
    for n in [1usize, 2, 3, 5, 7, 8, 9, 15, 16] {
        v.push((0..n).map(|i| FILL[(i * 3 + n) % 16] as char).collect());
        v.push((0..n).map(|i| (b'a' + ((i * 7 + n) % 26) as u8) as char).collect());
    }
    v
}

fn compare_with_references(rep: &mut Rep, refs: &[(String, NormalizedString)], class: &str) {
    for (text, r) in refs {
        rep.ev(1);
        match guard(|| NormalizedString::new(text)) {
            Ok(Ok(n)) => {
                let same = n == *r && *r == n && n.cmp(r) == std::cmp::Ordering::Equal && hash_of(&n) == hash_of(r) && n.as_ref() == r.as_ref();
                if !same {
                    rep.violation(
                        &format!("c13:value_depends_on_history:{}", class),
                        format!(
                            "NormalizedString::new({:?}) built after other inputs on this thread differs from the value built first: eq {} cmp {:?} hash equal {} text equal {}",
                            text, n == *r, n.cmp(r), hash_of(&n) == hash_of(r), n.as_ref() == r.as_ref()
                        ),
                        format!("str {}", hex(text.as_bytes())),
                    );
                    return;
                }
            }
            other => {
                rep.violation(&format!("c13:valid_rejected:{}", class), format!("valid string {:?} not accepted later in the process: {:?}", text, other.map(|x| x.is_ok())), format!("str {}", hex(text.as_bytes())));
                return;
            }
        }
    }
    rep.count("comparisons_with_first_built_values", refs.len() as u64);
}

/// Equality, ordering, hashing and in-place overwriting of one pair of valid strings.
fn judge_pair(rep: &mut Rep, a: &str, b: &str, do_clone_from: bool, sample: bool) {
    rep.ev(1);
    let (na, nb) = match (guard(|| NormalizedString::new(a)), guard(|| NormalizedString::new(b))) {
        (Ok(Ok(x)), Ok(Ok(y))) => (x, y),
        _ => {
            rep.violation("c13:valid_rejected:random_pair", format!("a valid printable string was rejected: {:?} / {:?}", a, b), format!("str {}", hex(a.as_bytes())));
            return;
        }
    };
    let (ta, tb) = (a.to_ascii_uppercase(), b.to_ascii_uppercase());
    if (na == nb) != (ta == tb) {
        rep.violation("c13:eq_disagrees", format!("{:?} == {:?} is {} but normalised texts equal is {}", a, b, na == nb, ta == tb), format!("pair {} {}", hex(a.as_bytes()), hex(b.as_bytes())));
    }
    if na.cmp(&nb) != ta.as_str().cmp(tb.as_str()) || na.partial_cmp(&nb) != Some(ta.as_str().cmp(tb.as_str())) {
        rep.violation("c13:ord_disagrees", format!("cmp({:?}, {:?}) = {:?}, normalised text order is {:?}", a, b, na.cmp(&nb), ta.as_str().cmp(tb.as_str())), format!("pair {} {}", hex(a.as_bytes()), hex(b.as_bytes())));
    }
    if ta == tb && hash_of(&na) != hash_of(&nb) {
        rep.violation("c13:hash_disagrees", format!("equal normalised texts hash differently: {:?} {:?}", a, b), format!("pair {} {}", hex(a.as_bytes()), hex(b.as_bytes())));
    }
    // a value overwritten in place (clone_from, as Vec::clone_from / Option::clone_from do) is the value it was copied from
    if do_clone_from {
        let mut d = nb.clone();
        d.clone_from(&na);
        rep.ev(1);
        rep.count("values_overwritten_by_clone_from", 1);
        if d != na || na != d || d.cmp(&na) != std::cmp::Ordering::Equal || hash_of(&d) != hash_of(&na) || d.as_ref() != na.as_ref() || d.to_string() != na.to_string() {
            rep.violation(
                "c13:clone_from_differs",
                format!("a value holding {:?} overwritten by clone_from with {:?}: eq={} cmp={:?} same_hash={} text={:?}", b, a, d == na, d.cmp(&na), hash_of(&d) == hash_of(&na), d.as_ref()),
                format!("pair {} {}", hex(a.as_bytes()), hex(b.as_bytes())),
            );
        }
    }
    if sample {
        rep.sample(format!("{:?} vs {:?}: eq={} cmp={:?}", a, b, na == nb, na.cmp(&nb)));
    }
    rep.cell(&[a.len() as u64, b.len() as u64, (ta == tb) as u64]);
}

pub fn run(tier: &str, seed: u64) -> Rep {
    let mut total = Rep::new();
    let refs: Vec<(String, NormalizedString)> = std::thread::spawn(|| {
        reference_texts().into_iter().filter_map(|t| NormalizedString::new(&t).ok().map(|n| (t, n))).collect()
    })
    .join()
    .unwrap_or_default();
    let refs_ref = &refs;
    total.rule = "NormalizedString constructors against the rule written from the statement (len 0 or >16 bytes -> length error; else first \
char outside 0x20..0x7E -> that char; else Ok with a..z upper-cased): every Unicode scalar value at every position of an otherwise valid \
string, all strings over {1,2,3,4-byte char} up to 20 bytes, all 95^2 two-char strings, lengths 0..64, random pairs for Eq/Ord/Hash. \
distinct = distinct input strings (each is one input of the quantifier)"
        .to_string();
    // ---- 1. every scalar at every position
    let positions: Vec<usize> = match tier {
        "thorough" => (0..16).collect(),
        "quick" => vec![0, 7, 14, 15],
        _ => vec![0, 15],
    };
    let step: u32 = if tier == "miri" { 40_009 } else { 1 };
    let shards = 68usize; // 0x110000 / 0x4000
    let positions_ref = &positions;
    let r = par(shards, threads(), |sh| {
        let mut rep = Rep::new();
        let lo = (sh as u32) * 0x4000;
        let mut cp = lo;
        while cp < lo + 0x4000 {
            if let Some(c) = char::from_u32(cp) {
                for &pos in positions_ref {
                    // total byte length varies: the filler is cut so that ASCII scalars give a 16-byte string when pos = 15
                    for total_len in [pos + 1, 16usize] {
                        let mut s = String::new();
                        for i in 0..total_len {
                            if i == pos {
                                s.push(c);
                            } else {
                                s.push(FILL[i] as char);
                            }
                        }
                        let deep = cp < 0x100 || cp % 97 == 0;
                        judge(&mut rep, &s, if c.is_ascii() { "ascii_scalar" } else { "non_ascii_scalar" }, deep);
                        rep.distinct_extra += 1;
                        if total_len == 16 && pos + 1 == 16 {
                            break;
                        }
                    }
                }
            }
            cp += step;
            if cp % 0x800 == 0 {
                compare_with_references(&mut rep, refs_ref, "worker_thread");
            }
        }
        compare_with_references(&mut rep, refs_ref, "worker_thread");
        rep
    });
    total.merge(r);
    let nscalars = if step == 1 { 1_112_064u64 } else { 0 };
    total.count("unicode_scalars_enumerated", nscalars);
    total.count("positions_per_scalar", positions.len() as u64);
    if tier == "thorough" {
        total.exhaustive = Some(true);
        total.note("every Unicode scalar value was placed at every position 0..15".to_string());
    }
    // ---- 2. all ASCII at all positions (always), all two-char strings, width mixes around the limit
    let mut rep = Rep::new();
    for cp in 0u32..128 {
        let c = char::from_u32(cp).unwrap();
        for pos in (0..16).step_by(if tier == "miri" { 15 } else { 1 }) {
            let mut s = String::new();
            for i in 0..16 {
                s.push(if i == pos { c } else { FILL[i] as char });
            }
            judge(&mut rep, &s, "ascii_all_positions", true);
            rep.distinct_extra += 1;
            // immediately afterwards: the twin that differs only in bit 0x20 / 0x80 / 0x01 of that character
            for m in [0x20u32, 0x40, 0x01] {
                if let Some(c2) = char::from_u32(cp ^ m) {
                    let mut t = String::new();
                    for i in 0..16 {
                        t.push(if i == pos { c2 } else { FILL[i] as char });
                    }
                    judge(&mut rep, &t, "twin_after_original", false);
                    judge(&mut rep, &s, "twin_after_original", false);
                    rep.distinct_extra += 1;
                }
            }
        }
        judge(&mut rep, &c.to_string(), "single_ascii", true);
        rep.distinct_extra += 1;
    }
    if tier != "miri" {
        for a in 0x20u8..=0x7E {
            for b in 0x20u8..=0x7E {
                let s = format!("{}{}", a as char, b as char);
                judge(&mut rep, &s, "two_printable", false);
                rep.distinct_extra += 1;
            }
        }
    }
    // strings over an alphabet of one char per UTF-8 width, byte length up to 20
    let alpha = ['a', '\u{e9}', '\u{20ac}', '\u{1F600}'];
    fn rec(rep: &mut Rep, alpha: &[char; 4], cur: &mut String, max_bytes: usize, budget: &mut u64) {
        if *budget == 0 {
            return;
        }
        if !cur.is_empty() {
            *budget -= 1;
            let s = cur.clone();
            judge(rep, &s, "utf8_width_mix", false);
            rep.distinct_extra += 1;
        }
        for c in alpha {
            if cur.len() + c.len_utf8() <= max_bytes {
                cur.push(*c);
                rec(rep, alpha, cur, max_bytes, budget);
                cur.pop();
            }
        }
    }
    let mut budget: u64 = match tier {
        "quick" => 300_000,
        "thorough" => 30_000_000,
        _ => 80,
    };
    // enumerating from longest-first would starve short ones; limit depth by bytes instead
    let max_bytes = match tier {
        "quick" => 12,
        "thorough" => 17,
        _ => 5,
    };
    rec(&mut rep, &alpha, &mut String::new(), max_bytes, &mut budget);
    // around the limit: multi-byte chars placed so that the byte length is 14..20
    let mut rng = Rng::new(seed, 0x13);
    let n_limit = if tier == "miri" { 12 } else { 200_000 };
    for _ in 0..n_limit {
        let target = 13 + rng.below(8) as usize;
        let mut s = String::new();
        while s.len() < target {
            let c = match rng.below(6) {
                0 => alpha[1],
                1 => alpha[2],
                2 => alpha[3],
                _ => (0x20 + rng.below(95) as u8) as char,
            };
            if s.len() + c.len_utf8() > target {
                s.push('x');
            } else {
                s.push(c);
            }
        }
        judge(&mut rep, &s, "multibyte_at_limit", true);
        rep.distinct_extra += 1;
    }
    // two offenders in one string: the FIRST one must be reported whatever kinds they are
    let offenders: [char; 10] = ['\t', '\u{0}', '\u{7f}', '\u{1b}', '\u{e9}', '\u{80}', '\u{20ac}', '\u{1F600}', '\n', '\u{ff}'];
    for (ia, a) in offenders.iter().enumerate() {
        for (ib, b) in offenders.iter().enumerate() {
            for gap in [0usize, 1, 3] {
                for lead in [0usize, 1, 5] {
                    let mut s = String::new();
                    for i in 0..lead {
                        s.push(FILL[i] as char);
                    }
                    s.push(*a);
                    for i in 0..gap {
                        s.push(FILL[lead + i] as char);
                    }
                    s.push(*b);
                    s.push('z');
                    judge(&mut rep, &s, "two_offenders", false);
                    rep.distinct_extra += 1;
                    rep.cell(&[77, ia as u64, ib as u64]);
                }
            }
            if tier == "miri" && ib > 2 {
                break;
            }
        }
    }
    // a valid string and, right after it, the same string with trailing NUL / control / blank characters
    for n in 1..=15usize {
        let base: String = (0..n).map(|i| FILL[(i * 5 + n) % 16] as char).collect();
        for tail in ["\0", "\0\0", "\u{1}", " ", "\u{7f}", "\u{a0}"] {
            judge(&mut rep, &base, "valid_then_suffix", false);
            let mut t = base.clone();
            t.push_str(tail);
            judge(&mut rep, &t, "valid_then_suffix", false);
            let mut t2 = String::from(tail);
            t2.push_str(&base);
            judge(&mut rep, &t2, "valid_then_suffix", false);
            rep.distinct_extra += 2;
        }
    }
    // lengths 0..64 of plain ASCII
    // every length up to 1100 bytes (beyond 255 and 256 + 16, 512 + 16, 1024 + 16: a length kept in one byte wraps there)
    for n in (0..=1100usize).step_by(if tier == "miri" { 37 } else { 1 }) {
        let s: String = (0..n).map(|i| FILL[i % 16] as char).collect();
        judge(&mut rep, &s, "length_sweep", true);
        if n > 16 {
            // over-long AND containing a character that is not allowed early on: still a length error
            let mut t = s.clone().into_bytes();
            t[3] = 7;
            judge(&mut rep, std::str::from_utf8(&t).unwrap(), "length_sweep_with_offender", n < 300);
        }
        rep.distinct_extra += 1;
        rep.hist("length_sweep", if n == 0 { "0" } else if n <= 16 { "1-16" } else if n <= 255 { "17-255" } else { ">255" }, 1);
    }
    if tier != "miri" {
        for n in [65_535usize, 65_536, 65_537, 65_540, 65_552, 65_553] {
            let s: String = (0..n).map(|i| FILL[i % 16] as char).collect();
            judge(&mut rep, &s, "length_sweep_far_beyond", false);
            rep.distinct_extra += 1;
        }
    }
    judge(&mut rep, "", "empty", true);
    // ---- 3. Eq / Ord / Hash follow the normalised text
    let npairs = if tier == "miri" { 30 } else { 200_000 };
    for i in 0..npairs {
        let mk = |rng: &mut Rng| -> String {
            let top = if rng.chance(1, 2) { 3 } else { 16 };
            let n = 1 + rng.below(top) as usize;
            (0..n).map(|_| (0x20 + rng.below(95) as u8) as char).collect()
        };
        let a = mk(&mut rng);
        let b = match rng.below(6) {
            // case variant of a
            0 | 1 => a.chars().map(|c| if rng.chance(1, 2) { c.to_ascii_lowercase() } else { c.to_ascii_uppercase() }).collect(),
            // a shared prefix of any length followed by another tail: the order is decided by the first difference wherever
            // it lies, and several later positions differ too (in either sense)
            2 | 3 => {
                let keep = rng.below(a.len() as u64 + 1) as usize;
                let mut t: String = a[..keep].to_string();
                let extra = rng.below((16 - keep) as u64 + 1) as usize;
                for _ in 0..extra {
                    t.push((0x20 + rng.below(95) as u8) as char);
                }
                if t.is_empty() {
                    t.push('x');
                }
                t
            }
            _ => mk(&mut rng),
        };
        judge_pair(&mut rep, &a, &b, i % 4 == 0, i < 3);
    }
    compare_with_references(&mut rep, refs_ref, "main_thread_end");
    rep.sample(format!("new({:?}) -> {:?}", "aB3 \u{e9}", conv(NormalizedString::new("aB3 \u{e9}")).0));
    total.merge(rep);
    total
}

pub fn replay(args: &[String]) -> Rep {
    let mut rep = Rep::new();
    if args.len() >= 2 && args[0] == "str" {
        if let Ok(s) = String::from_utf8(unhex(&args[1])) {
            judge(&mut rep, &s, "replay", true);
        }
    } else if args.len() >= 3 && args[0] == "pair" {
        if let (Ok(a), Ok(b)) = (String::from_utf8(unhex(&args[1])), String::from_utf8(unhex(&args[2]))) {
            judge(&mut rep, &a, "replay", true);
            judge(&mut rep, &b, "replay", true);
            if NormalizedString::new(&a).is_ok() && NormalizedString::new(&b).is_ok() {
                judge_pair(&mut rep, &a, &b, true, true);
            }
        }
    }
    rep
}
