#!/usr/bin/env python3
"""One-off search for pairs of valid credential strings that collide under common 32-bit string hashes (inputs only).
A cache or table inside the library that is tagged with such a hash cannot tell the two names apart; the monitors use the
pairs as 'structurally related inputs used one after the other'. Every pair is re-validated when loaded."""
import json, random, sys, zlib

def fnv1a(b):
    h = 0x811c9dc5
    for c in b:
        h = ((h ^ c) * 0x01000193) & 0xffffffff
    return h
def fnv1(b):
    h = 0x811c9dc5
    for c in b:
        h = ((h * 0x01000193) & 0xffffffff) ^ c
    return h
def djb2(b):
    h = 5381
    for c in b:
        h = (h * 33 + c) & 0xffffffff
    return h
def sdbm(b):
    h = 0
    for c in b:
        h = (c + (h << 6) + (h << 16) - h) & 0xffffffff
    return h
def java31(b):
    h = 0
    for c in b:
        h = (h * 31 + c) & 0xffffffff
    return h
def crc32(b):
    return zlib.crc32(b) & 0xffffffff
def adler(b):
    return zlib.adler32(b) & 0xffffffff
def fnv1a64_fold(b):
    h = 0xcbf29ce484222325
    for c in b:
        h = ((h ^ c) * 0x100000001b3) & 0xffffffffffffffff
    return (h ^ (h >> 32)) & 0xffffffff
def murmur_like(b):
    h = 0
    for c in b:
        h = (h + c) & 0xffffffff
        h = (h + (h << 10)) & 0xffffffff
        h ^= h >> 6
    h = (h + (h << 3)) & 0xffffffff
    h ^= h >> 11
    h = (h + (h << 15)) & 0xffffffff
    return h  # Jenkins one-at-a-time

HASHES = {"fnv1a32": fnv1a, "fnv1_32": fnv1, "djb2": djb2, "sdbm": sdbm, "java31": java31, "crc32": crc32, "adler32": adler,
          "fnv1a64_folded": fnv1a64_fold, "jenkins_oaat": murmur_like}

def main():
    rnd = random.Random(20261002)
    alphabet = "ABCDEFGHIJKLMNOPQRSTUVWXYZ0123456789"
    out = []
    for name, fn in HASHES.items():
        found = 0
        for length in (13, 7, 16):
            seen = {}
            while True:
                s = "".join(rnd.choice(alphabet) for _ in range(length))
                h = fn(s.encode())
                if h in seen and seen[h] != s:
                    out.append({"hash": name, "a": seen[h], "b": s})
                    found += 1
                    break
                seen[h] = s
                if len(seen) > 3_000_000:
                    break
        sys.stderr.write("%s: %d pairs\n" % (name, found))
    # sums and xors: permutations / cancelling pairs
    out.append({"hash": "byte_sum", "a": "ACCOUNTNAME01", "b": "ACCOUNTNAME10"})
    out.append({"hash": "byte_xor", "a": "ABAB1234", "b": "BABA1234"})
    json.dump(out, open(sys.argv[1] if len(sys.argv) > 1 else "/verif/corpus/name_collisions.json", "w"), indent=1)

if __name__ == "__main__":
    main()
