#!/usr/bin/env python3
"""One-off search for login inputs whose shared secret S has z low-order zero
bytes on the built-in group (DESIGN.md 3.4). Output: inputs only
(user, pw, salt, a, b); every entry is re-validated by the model before use.

usage: find_corpus.py <z> <count> <seed> [procs]
"""
import json, multiprocessing, os, random, sys
sys.path.insert(0, os.path.join(os.path.dirname(os.path.abspath(__file__)), "..", "pymon"))
import model as M


def search(args):
    z, seed, idx, budget = args
    rnd = random.Random("corpus:%d:%d:%d" % (z, seed, idx))
    alphabet = [chr(c) for c in range(0x21, 0x7F)]
    user = "".join(rnd.choice(alphabet) for _ in range(rnd.randint(1, 16)))
    pw = "".join(rnd.choice(alphabet) for _ in range(rnd.randint(1, 16)))
    un, pn = M.norm(user), M.norm(pw)
    salt = bytes(rnd.getrandbits(8) for _ in range(32))
    a = rnd.getrandbits(256)
    x = M.calc_x(un, pn, salt)
    v = pow(M.G, x, M.N)
    A = pow(M.G, a, M.N)
    A_b = M.to_le(A)
    b = rnd.getrandbits(255)
    gb = pow(M.G, b, M.N)
    mod = 256 ** z
    found = []
    for _ in range(budget):
        B = (3 * v + gb) % M.N
        if B != 0:
            u = M.calc_u(A_b, M.to_le(B))
            S = pow(gb, a + u * x, M.N)
            if S % mod == 0 and S != 0:
                found.append(dict(user=user, pw=pw, salt=salt.hex(), a=M.to_le(a).hex(), b=M.to_le(b).hex(), z=M.low_zero_bytes(S)))
                return found
        b += 1
        gb = gb * M.G % M.N
    return found


if __name__ == "__main__":
    z = int(sys.argv[1]); count = int(sys.argv[2]); seed = int(sys.argv[3])
    procs = int(sys.argv[4]) if len(sys.argv) > 4 else 16
    out = []
    idx = 0
    budget = max(2000, (256 ** z) // 4)
    with multiprocessing.Pool(procs) as pool:
        while len(out) < count:
            res = pool.map(search, [(z, seed, idx + i, budget) for i in range(procs)])
            idx += procs
            for r in res:
                out.extend(r)
            sys.stderr.write("z=%d: %d found after %d shards\n" % (z, len(out), idx))
    for e in out[:count]:
        print(json.dumps(e))
