#!/bin/bash
# Run every registered quick check on the current /repo tree at the given VERIF_SEED values; report anything that is not exit 0.
# usage: tools/silence.sh [seed ...]     (default: 1)
cd /verif
seeds="${@:-1}"
bad=0
for s in $seeds; do
  for i in 01 02 03 04 05 06 07 08 09 10 11 12 13 14 15 16 17 18 19; do
    VERIF_SEED=$s ./check C$i --tier quick > /tmp/silence_C${i}_$s.log 2>&1
    rc=$?
    inc=$(grep -c '^INCONCLUSIVE' /tmp/silence_C${i}_$s.log)
    if [ $rc -ne 0 ] || [ $inc -ne 0 ]; then
      bad=1
      echo "seed $s C$i: exit=$rc inconclusive=$inc"
      grep -E '^(VIOLATION|INCONCLUSIVE|  what)' /tmp/silence_C${i}_$s.log | head -3 | cut -c1-250
    fi
  done
  echo "seed $s done"
done
[ $bad -eq 0 ] && echo "ALL SILENT"
