#!/usr/bin/env python3
"""Confirm a seeded fault in its scratch worktree: the unchanged tree passes the demo, the changed tree still passes the
whole existing suite but fails the demo. usage: confirm_mutant.py <worktree> <n> [--features matrix-card]"""
import os, subprocess, sys, shutil, re

wt, n = sys.argv[1], sys.argv[2]
feat = sys.argv[4].split() if len(sys.argv) > 4 and sys.argv[3] == "--features" else []
fargs = (["--features", ",".join(feat)] if feat else [])
diff = os.path.join(wt, "out", "m%s.diff" % n)
demo = os.path.join(wt, "out", "m%s_demo.rs" % n)
env = dict(os.environ, CARGO_NET_OFFLINE="true")


def run(cmd, timeout=1200):
    r = subprocess.run(cmd, cwd=wt, env=env, stdout=subprocess.PIPE, stderr=subprocess.STDOUT, timeout=timeout)
    return r.returncode, r.stdout.decode(errors="replace")


def suite():
    rc, out = run(["cargo", "test", "--workspace", "--no-fail-fast", "--offline"] + fargs)
    res = re.findall(r"test result: (\w+)\. (\d+) passed; (\d+) failed", out)
    return rc, res


subprocess.run(["git", "checkout", "--", "."], cwd=wt)
os.makedirs(os.path.join(wt, "tests"), exist_ok=True)
shutil.copy(demo, os.path.join(wt, "tests", "demo.rs"))
ok = True
rc0, out0 = run(["cargo", "test", "--offline", "--test", "demo"] + fargs)
print("demo on unchanged tree: rc=%d" % rc0)
if rc0 != 0:
    print(out0[-1500:]); ok = False
a = subprocess.run(["git", "apply", diff], cwd=wt)
if a.returncode != 0:
    print("patch does not apply"); sys.exit(1)
os.remove(os.path.join(wt, "tests", "demo.rs"))
rc1, res = suite()
print("suite with change: rc=%d %s" % (rc1, res))
if rc1 != 0 or not res or int(res[0][1]) < 83 or any(int(r[2]) for r in res):
    ok = False
shutil.copy(demo, os.path.join(wt, "tests", "demo.rs"))
rc2, out2 = run(["cargo", "test", "--offline", "--test", "demo"] + fargs)
print("demo with change: rc=%d" % rc2)
if rc2 == 0:
    ok = False
os.remove(os.path.join(wt, "tests", "demo.rs"))
subprocess.run(["git", "checkout", "--", "."], cwd=wt)
print("CONFIRMED" if ok else "NOT CONFIRMED")
sys.exit(0 if ok else 1)
