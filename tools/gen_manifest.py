#!/usr/bin/env python3
"""Writes /verif/MANIFEST.json from the table below (kept in one place so that it stays valid)."""
import json
import os

ROOT = os.path.normpath(os.path.join(os.path.dirname(os.path.abspath(__file__)), ".."))

E1_NOTE = ("Trusted: independent Python model (CPython int/pow, hashlib, hmac) pinned by frozen maintainer vectors; the instrumented "
           "copy of rand 0.8.8 (draw log/script on ThreadRng) patched into the harness build; catch_unwind as panic observer. "
           "Verdict covers only the executions produced (counts in the evidence file).")
E2_NOTE = ("Trusted: reference models inside wsm written from the statement (hand-built HMAC, textbook RC4, recurrences), the sha1/md5 "
           "crates' digest primitives, frozen maintainer vectors for model self-check; catch_unwind as panic observer. Verdict covers "
           "only the executions produced (counts in the evidence file).")

P = {
    "C01": ("wsx+pymon", "exploration", "4/C01",
            "runtime monitoring: real library client and server driven through the public API by a Python driver; oracle = both accept and keys byte-identical, accessors round-trip; classes (zero bytes of S, negative base, padding) measured by white-box model recomputation from logged RNG draws; history workloads: 16 threads of one process logging in at once (> 2^16 logins in one process), clones dropped/consumed before use, other-module calls and other announced moduli earlier in the process, credentials colliding under common 32-bit hashes",
            "Honest logins are executed for real (about 150k per quick run, millions in thorough) with credentials over the whole alphabet, case variants, re-import, boundary salts/keys and a steering corpus that reaches S with 1, 2 and 3 low-order zero bytes on the built-in group; a sampled quantifier over inputs cannot be proved by running, so the level is exploration with measured class coverage.",
            E1_NOTE + " Corpus entries are inputs only and are re-validated by the model on every run."),
    "C02": ("wsx+pymon", "exploration", "4/C02",
            "runtime monitoring: perturbation sweeps against cloned server/client state with injected a, b, salt; iff-oracle from an independent model; error payloads checked",
            "Per session all 160 single-bit changes of M1 and of M2, all 256 single-bit changes of A, of B and of the salt as seen by the client, other usernames/passwords, truncations and permutations are presented to clones of the same state and each decision is compared with the model (expected accept iff presented == model proof). Exploration: complete per session over the listed perturbations, sampled over sessions.",
            E1_NOTE),
    "C03": ("wsx+pymon", "exploration", "4/C03",
            "runtime monitoring with a model peer: library server <-> model client and model server <-> library client; byte-exact comparison of v, B, A, M1, M2, K; steering through the public API reaches every count 0..31 of low-order zero bytes on both sides and announced groups (all generators, primes of every byte length)",
            "Interoperation with an independent implementation is observed directly: the model peer completes every handshake and every value leaving the API is compared. Every leading-zero class 0..31 is driven on both sides through public inputs (verifier 1 with b=1 on the server; announced primes m*256^z+1 on the client); a class that was not observed makes the run inconclusive for it.",
            E1_NOTE),
    "C04": ("wsm + wsx own-key paths", "exploration", "4/C04",
            "runtime monitoring: exhaustive enumeration of the 2^32 look-alike family (thorough; 2^28 slice in quick), all neighbours of 0 and N, random arrays through PublicKey::from_le_bytes; own-key paths forced through injected b=1 / tiny announced groups",
            "The two refused encodings and the accept-and-return-unchanged rule are checked on billions of inputs including the complete family of arrays made of zero bytes and bytes of N (exhaustive for that sub-space in the thorough tier), plus the server's own B and the client's own A.",
            E2_NOTE + " Own-key paths use the E1 trusted base."),
    "C05": ("wsx+pymon", "exploration", "4/C05",
            "runtime monitoring of histories: per SrpServer a random history of reconnect attempts over 12 kinds (incl. cancelling proof changes and client data aliasing the challenge); online checker: verdict == model proof equality for the accessor-read challenge, and the challenge after every attempt is new; kind-pair matrix coverage; histories served by a fresh thread per attempt; one history of 66,000 attempts",
            "Histories of up to 100 attempts per authenticated server object with real randomness; every attempt is judged and the challenge refresh is checked after accepted and rejected attempts alike. The 10x10 matrix of consecutive kinds must be covered, else the run says so.",
            E1_NOTE),
    "C06": ("wsx+pymon", "exploration", "4/C06",
            "runtime monitoring: world logins through the three expansion modules; client proof vs hashlib model with accessor-read seeds; server decisions on perturbed presentations judged iff; error payload; handed-out crypto exercised against the model cipher; boundary seeds by RNG injection",
            "About 34k logins x 3 modules per quick run with perturbations of seeds, key bytes, proof bits and names; the three modules are compared with one model, which implies their agreement.",
            E1_NOTE),
    "C07": ("wsm", "exploration", "4/C07",
            "runtime monitoring with an online reference model: real Vanilla objects (obtained via ProofSeed) encrypt/decrypt streams under independent random partitions; a model-guided generator drives all 40x256x256 state/input transitions of both directions; empty calls included",
            "Every (position, previous byte, input byte) transition of the encrypter and of the decrypter is driven through the real objects (exhaustive for that space, measured), plus thousands of keys, long streams (to 10^7 bytes) and chunkings; the quantifier over all streams is sampled.",
            E2_NOTE),
    "C08": ("wsm", "exploration", "4/C08",
            "runtime monitoring with an online reference model: as C07 with period 20 and key = hand-built HMAC-SHA1(TBC seed, K); encrypter and decrypter of separately constructed objects",
            "All 20x256x256 transitions of both directions driven through real TBC objects; key derivation compared for thousands of session keys via model equality on both halves.",
            E2_NOTE),
    "C09": ("wsm", "exploration", "4/C09",
            "runtime monitoring with an online reference model: wire bytes vs plaintext xor textbook-RC4-drop1024 keyed by hand-built HMAC per direction; both directions round-trip under independent partitions; directions differ; streams cross 256, 65536 and 16 MiB",
            "Counter wrap-around and long-running connections are observed directly (offsets beyond 2^24), for about a thousand keys per quick run; sampled over keys and traffic.",
            E2_NOTE),
    "C10": ("wsm", "exploration", "4/C10",
            "runtime monitoring: every size 0..0x7FFFFF (quick: each once; thorough: x 7 opcodes) and all 2^16 opcodes x boundary sizes sent by a real ServerCrypto and decoded by a real ClientCrypto through both client paths on long mixed connections; length, plaintext layout (model keystream), decoded value and bytes consumed checked per header",
            "The size axis is enumerated completely in both tiers, the opcode axis completely at 11 boundary sizes; mixed sequences arise from scrambled order on long connections and from random fresh connections of 1..200 headers.",
            E2_NOTE),
    "C11": ("wsm", "fault_enumeration", "4/C11",
            "runtime monitoring with fault injection: per sample nine entry-point routes per direction compared with the raw operation and followed by state comparison; complete enumeration of read/write faults: every offset x 6 error kinds x every fragmentation of the delivered prefix x Interrupted injection, for the five header kinds",
            "The fault space (header kind x failure offset x error kind x fragmentation x interruption) is enumerated completely for every sample, crossed with sampled keys, sizes, opcodes and positions in a conversation; after each failed read the decrypter is checked behaviourally (retransmitted header decodes, stream in step) and for the 5-byte Wrath header the later-supplied fifth byte must complete it.",
            E2_NOTE + " Readers/writers that fragment, interrupt and fail are part of the harness."),
    "C12": ("wsm + Miri", "exploration", "4/C12",
            "runtime monitoring of histories over {encrypt, decrypt (raw and typed), split, clone, unsplit, replacement of the sending half} against two separate per-direction models; two-step Wrath headers with clone/split/other use between the steps; unsplit key-pair sweeps (all 320 one-bit differences, reordered words, cancelling differences, an old half against 768k later objects); objects handed from thread to thread; halves on two OS threads natively and under Miri's scheduler seeds and data-race detector",
            "Interleavings are sampled (op 3-gram coverage reported); schedules are the native rounds and the Miri seeds listed in the evidence, no claim beyond them.",
            E2_NOTE + " Miri's soundness for what it reports."),
    "C13": ("wsm", "exploration", "4/C13",
            "runtime monitoring against the rule written from the statement: every Unicode scalar value at positions of an otherwise valid string (all 16 positions in thorough), all strings over one char per UTF-8 width up to the limit, all two-char printable strings, Eq/Ord/Hash/Display/idempotence/case-insensitivity checks",
            "The scalar x position space is enumerated completely in the thorough tier (4 positions in quick); length and multi-byte cases around the 16-byte limit are enumerated or densely sampled.",
            E2_NOTE),
    "C14": ("wsx+pymon, wsm, Miri, valgrind", "exploration", "4/C14",
            "runtime monitoring with a hostile model peer: every peer-controlled value swept while the victim's state is pinned (incl. B = k*v mod N forcing S = 0, A on verifier-1 accounts forcing any S); header byte soup through every decrypting entry point with failing readers; thorough: same workloads under Miri and valgrind memcheck on the GMP build; oracle = no panic / abort / sanitizer report",
            "Crash-freedom is observed over targeted hostile classes (values driving intermediates to 0, 1, N-1, many zero bytes) rather than random bytes only; a finite sweep cannot prove absence, so exploration.",
            E1_NOTE + " Miri/valgrind are trusted for what they report, not for what they do not."),
    "C15": ("wsx census + pymon", "exploration", "4/C15",
            "runtime monitoring, offline statistical checker over a census of every documented random source on 16 threads and in a second process: no repeats (>= 8-byte values), bounded repeats (4-byte), per-byte variability and per-bit balance, card digits in range and balanced; private keys tested on hook-logged bytes only when attributed by the model",
            "Freshness per use and absence of stuck or low-entropy bytes is what the statement says and what a census can decide; thresholds have false-alarm probability < 1e-12. Cryptographic quality of the generator is out of reach and not claimed.",
            E1_NOTE),
    "C16": ("wsm", "exploration", "4/C16",
            "runtime monitoring against the keypad-remap model: all 3,628,800 seed residues through the pandigital PIN, all PINs 0..99,999, powers of ten, u32 boundaries, random PINs/seeds/salts; verification with the right hash, all 160 bit flips, neighbouring PINs' hashes, invalid PINs",
            "The layout space (seed mod 10!) is enumerated completely; the PIN and salt axes are enumerated at the low end and sampled elsewhere.",
            E2_NOTE),
    "C17": ("wsm", "exploration", "4/C17",
            "runtime monitoring against SHA1(key | hand-built HMAC-SHA1(salt, files)): all distributions of byte strings up to length 10 (12 in thorough) over the five file arguments for Windows, Mac and generic; block-boundary lengths up to 1 MiB; one-bit sensitivity of salt, key and files; reconnect variant",
            "Distribution-independence is enumerated completely for short strings and sampled for long ones.",
            E2_NOTE),
    "C18": ("wsm", "exploration", "4/C18",
            "runtime monitoring: all 1457 card shapes x digit counts {1,2,3,4,8} x every cell compared with the printed card; coordinates for all rounds 0..=255; a model client reading the printed card produces the HMAC/RC4/MD5 proof which the server-side check must accept; wrong sequences rejected",
            "The shape x cell space is enumerated completely; seeds, keys and challenge counts are sampled.",
            E2_NOTE + " The md5 crate is trusted as MD5."),
    "C19": ("wsx + wsx-rug", "exploration", "4/C19",
            "runtime monitoring, differential: identical command stream and identical injected RNG draws through two executors built from one source against num-bigint and rug/GMP; event-by-event equality",
            "Agreement is observed on the workloads of C01-C04/C14 including boundary private keys (0, 1, N-1, N, 2^256-1), all z classes, all generators, tiny primes and 2, negative bases; sampled.",
            E1_NOTE + " The vendored gmp-mpfr-sys build script (one version constant relaxed) and the system GMP 6.2.1 instead of the bundled 6.3.0."),
}


def main():
    checks = []
    for pid in sorted(P):
        engine, level, ref, technique, text, note = P[pid]
        checks.append({
            "property_id": pid,
            "quick_cmd": "./check %s --tier quick" % pid,
            "thorough_cmd": "./check %s --tier thorough" % pid,
            "evidence_file": "/verif/evidence/%s.json" % pid,
            "replay_cmd_template": "./check replay {path}",
            "engine": engine,
            "level_claimed": {"category": level, "text": text, "design_ref": "DESIGN.md section " + ref},
            "level_note": note,
            "technique": technique,
        })
    m = {
        "version": 1,
        "setup_cmd": "./check build",
        "hooks": {
            "guard": "none",
            "enable": "no source hooks in /repo: the harness workspaces replace the rand dependency by an instrumented copy via [patch.crates-io] (DESIGN.md 3.1); wow_srp is a path dependency on /repo, so every check rebuilds it from the working tree",
            "baseline_off_cmd": "cd /repo && cargo test --workspace --no-fail-fast --offline",
            "source_commits": [],
            "add_only": True,
        },
        "engines": [
            {"name": "wsx", "path": "/verif/harness/exec", "serves_properties": ["C01", "C02", "C03", "C04", "C05", "C06", "C14", "C15", "C19"],
             "kind_free_text": "E1 executor: one command line -> one public API call -> one event line; driven by pymon (independent Python model, online/offline checkers)"},
            {"name": "wsx-rug", "path": "/verif/harness-rug", "serves_properties": ["C19", "C14"],
             "kind_free_text": "the same executor built against rug/GMP (vendored gmp-mpfr-sys build script, system GMP)"},
            {"name": "wsm", "path": "/verif/harness/inproc", "serves_properties": ["C04", "C07", "C08", "C09", "C10", "C11", "C12", "C13", "C14", "C16", "C17", "C18"],
             "kind_free_text": "E2 in-process monitors with reference models, fault-injecting readers/writers, coverage matrices"},
            {"name": "wsf", "path": "/verif/harness-feat", "serves_properties": ["C02", "C05", "C08", "C09"],
             "kind_free_text": "the crate built with reduced feature sets (srp-default-math only, + tbc-header, + wrath-header), one target directory each; smoke-level versions of the same oracles"},
            {"name": "pymon", "path": "/verif/pymon", "serves_properties": sorted(P),
             "kind_free_text": "Python drivers, model, verdict/evidence plumbing, Miri/valgrind runners"},
        ],
        "checks": checks,
        "notes": "Genuine defects found and repaired by fix: commits in /repo are listed in /verif/KNOWN_FINDINGS.txt (fixed: lines suppress nothing). "
                 "Every check prints what it observed; exit 2 means nothing could be observed (inconclusive), never a verdict.",
        "not_applicable": [],
    }
    with open(os.path.join(ROOT, "MANIFEST.json"), "w") as f:
        json.dump(m, f, indent=1)
    print("MANIFEST.json written with %d checks" % len(checks))


if __name__ == "__main__":
    main()
