#!/usr/bin/env python3
"""Apply a seeded fault to /repo, run the given checks (quick tier), undo it. usage: run_mutant.py <patch.diff> <prop> [<prop>...] [--tier T]"""
import os, subprocess, sys, time

args = sys.argv[1:]
tier = "quick"
if "--tier" in args:
    i = args.index("--tier"); tier = args[i + 1]; del args[i:i + 2]
diff, props = args[0], args[1:]
st = subprocess.run(["git", "-C", "/repo", "status", "--porcelain", "--untracked-files=no"], stdout=subprocess.PIPE).stdout.decode().strip()
if st:
    print("/repo is not clean:", st); sys.exit(2)
if subprocess.run(["git", "-C", "/repo", "apply", diff]).returncode != 0:
    print("patch does not apply to /repo"); sys.exit(2)
res = {}
try:
    for p in props:
        t0 = time.time()
        r = subprocess.run(["/verif/check", p, "--tier", tier], cwd="/verif", stdout=subprocess.PIPE, stderr=subprocess.STDOUT)
        out = r.stdout.decode(errors="replace")
        viol = [l for l in out.splitlines() if l.startswith("VIOLATION")]
        what = [l.strip() for l in out.splitlines() if l.strip().startswith("what:")]
        inc = [l for l in out.splitlines() if l.startswith("INCONCLUSIVE")]
        res[p] = r.returncode
        print("%s: exit=%d violations=%d inconclusive=%d (%.0fs)" % (p, r.returncode, len(viol), len(inc), time.time() - t0))
        for w in what[:3]:
            print("    ", w[:260])
        for w in inc[:2]:
            print("    ", w[:200])
finally:
    subprocess.run(["git", "-C", "/repo", "checkout", "--", "."])
    # patches may add new source files: remove them too (only untracked files under src/)
    subprocess.run(["git", "-C", "/repo", "clean", "-fdq", "src"])
    # restore the evidence of the unchanged tree is the caller's business (re-run the checks)
print("RESULT", " ".join("%s=%d" % kv for kv in res.items()))
