"""AddressSanitizer build of the in-process monitors (thorough tier): the quick workload of a monitor runs once more in a
binary instrumented with -Zsanitizer=address (nightly); reports are violations of the property whose workload triggered them."""
import os
import re
import subprocess
import time

from common import ROOT

HARNESS = os.path.join(ROOT, "harness")
BIN = os.path.join(HARNESS, "target-asan", "x86_64-unknown-linux-gnu", "release", "wsm")


def build():
    env = dict(os.environ, CARGO_NET_OFFLINE="true", RUSTFLAGS="-Zsanitizer=address -Cforce-frame-pointers=yes")
    r = subprocess.run(["cargo", "+nightly", "build", "--release", "--offline", "--target", "x86_64-unknown-linux-gnu",
                        "--target-dir", "target-asan", "-p", "wsm"], cwd=HARNESS, env=env, stdout=subprocess.PIPE, stderr=subprocess.STDOUT)
    return r.returncode == 0, r.stdout.decode(errors="replace")[-800:]


def run(prop, seed, mon, timeout=3600):
    t0 = time.time()
    ok, out = build()
    if not ok:
        mon.inconc("AddressSanitizer build of the monitors failed (inconclusive for the ASan part): %s" % out.replace("\n", " / ")[-300:])
        return
    env = dict(os.environ, ASAN_OPTIONS="halt_on_error=1:detect_leaks=1:abort_on_error=0")
    try:
        r = subprocess.run([BIN, prop, "--tier", "quick", "--seed", str(seed)], env=env, stdout=subprocess.PIPE, stderr=subprocess.PIPE, timeout=timeout)
    except subprocess.TimeoutExpired:
        mon.inconc("ASan watchdog fired for %s (inconclusive)" % prop)
        return
    o = r.stdout.decode(errors="replace")
    e = r.stderr.decode(errors="replace")
    evals = sum(int(x) for x in re.findall(r"^EVAL\t(\d+)", o, re.M))
    mon.count("asan_monitor_evaluations", evals)
    mon.ev(evals)
    mon.note("AddressSanitizer: quick workload of %s in an instrumented build, %d evaluations in %.0fs, exit %d" % (prop, evals, time.time() - t0, r.returncode))
    for line in o.splitlines():
        if line.startswith("VIOLATION\t"):
            q = line.split("\t")
            mon.violation(q[1] + ":under_asan", q[2], {"engine": "wsm", "args": q[3].split(" ") if len(q) > 3 else [], "under": "asan"})
    if "ERROR: AddressSanitizer" in e or "ERROR: LeakSanitizer" in e:
        first = re.search(r"ERROR: (Address|Leak)Sanitizer[^\n]*", e)
        frames = [l.strip() for l in e.splitlines() if l.strip().startswith("#")][:8]
        mon.violation("%s:asan_report" % prop.lower(), "sanitizer report: %s | %s" % (first.group(0) if first else "?", " ; ".join(frames)[:500]),
                      {"engine": "asan", "cmd": "%s %s --tier quick --seed %s" % (BIN, prop, seed)})
    elif evals == 0:
        mon.inconc("the ASan run of %s produced no evaluations (exit %d): %s" % (prop, r.returncode, e[-300:].replace("\n", " / ")))
    mon.cell(("asan", prop))
