"""C06 — world-login proof is accepted iff name, session key and both seeds match (E1 + hashlib, x3 expansions)."""
import zlib

import model as M
from common import Monitor, rng_for
from c01 import rand_cred, case_variant
from wsx import Wsx, ExecutorDied

RULE = ("world logins per expansion module (vanilla, tbc, wrath): client proof compared with SHA1(U|0000|client_seed_LE|"
        "server_seed_LE|K) using the seeds read from the accessors; server decision on perturbed presentations judged iff "
        "against the model; error payload checked; handed-out crypto objects exercised against the model cipher. Distinct "
        "non-trivial cases = (module, seed class, perturbation kind, position)")

BOUNDARY = [0, 1, 0x7FFFFFFF, 0x80000000, 0xFFFFFFFF, 0x01000000, 0x000000FF, 0xFF000000, 0x12211221, 0xABCDDCBA]


def flipbit(b, bit):
    x = bytearray(b)
    x[bit // 8] ^= 1 << (bit % 8)
    return bytes(x)


def model_cipher(x, K, direction):
    """direction: 'c2s' or 's2c'. Returns an object with enc/dec on bytes."""
    if x == "v":
        return M.AddCipher(K)
    if x == "t":
        return M.AddCipher(M.hmac_sha1(M.TBC_SEED, K))
    return M.wrath_stream(M.WRATH_S if direction == "c2s" else M.WRATH_R, K)


def run_login(w, sc, mon):
    rnd = rng_for(sc["pseed"], "c06")
    x = sc["x"]
    replay = {"engine": "wsx", "kind": "c06", "scenario": sc}

    def viol(sig, what):
        mon.violation("c06:%s:%s" % (x, sig), what, replay)

    un = M.norm(sc["user"])
    K = bytes.fromhex(sc["K"])
    w.reset()
    seedcls = "random"
    if sc.get("cseed") is not None:
        w.script([sc["cseed"].to_bytes(4, "little")])
    c = w.call("seed_new", x=x, into=1)
    if sc.get("sseed") is not None:
        w.script([sc["sseed"].to_bytes(4, "little")])
    s = w.call("seed_new", x=x, into=2)
    if c.status != "ok" or s.status != "ok":
        viol("panic:seed_new", "%s %s" % (c.f, s.f))
        return
    cs, ss = int(c.f["seed"]), int(s.f["seed"])
    if sc.get("cseed") is not None:
        if cs != sc["cseed"] or ss != sc["sseed"]:
            mon.inconc("seed injection ineffective for module %s: boundary seed classes were not reached" % x)
        else:
            seedcls = "boundary"
            mon.count("boundary_seed_logins")
    # accessor is stable
    g = w.call("seed_get", h=1)
    if int(g.f["seed"]) != cs:
        viol("seed_accessor_unstable", "seed() returned two different values for one object")
    mon.ev()
    if sc.get("noise"):
        w.call("noise", k=sc["noise"])
        mon.count("logins_preceded_by_other_module_calls")
    cp = w.call("seed_client", h=1, into=3, u=sc["cuser"], K=K, sseed=ss)
    if cp.status != "ok":
        viol("panic:into_client_header_crypto", str(cp.f))
        return
    proof = cp.b("proof")
    want = M.world_proof(un, cs, ss, K)
    mon.count("client_proofs_compared")
    if proof != want:
        alt = M.world_proof(un, ss, cs, K)
        viol("client_proof" + (":seeds_swapped" if proof == alt else ""),
             "client proof %s != SHA1(U|0|cseed|sseed|K) = %s (name %r cseed %#x sseed %#x)" % (proof.hex(), want.hex(), un, cs, ss))
    mon.cell((x, seedcls, "client_proof", 0))

    def decide(kind, pos, name, key, pres, cseed):
        mon.ev()
        if sc.get("noise") and (zlib.crc32(str(pos).encode()) % 5 == 0):
            w.call("noise", k=(sc["noise"] + zlib.crc32(str(pos).encode())) & 0xFFFF)
        r = w.call("seed_server", h=2, into=4, u=name, K=key, proof=pres, cseed=cseed)
        if r.status == "panic":
            viol("panic:into_server_header_crypto:" + kind, r.f.get("msg"))
            return None
        exp = M.world_proof(M.norm(name), cseed, ss, key)
        accept = (pres == exp)
        if accept != r.ok:
            viol(("accept_of_wrong:" if r.ok else "reject_of_right:") + kind,
                 "server %s a presentation that the model %s: kind=%s pos=%s cseed=%#x sseed=%#x" % (
                     "ACCEPTED" if r.ok else "refused", "accepts" if accept else "rejects", kind, pos, cseed, ss))
        elif not accept:
            if {r.b("client_proof"), r.b("server_proof")} != {pres, exp}:
                viol("error_payload:" + kind, "error carries client_proof=%s server_proof=%s; expected presented=%s computed=%s" % (
                    r.f.get("client_proof"), r.f.get("server_proof"), pres.hex(), exp.hex()))
        mon.count("expected_accept" if accept else "expected_reject")
        mon.cell((x, seedcls, kind, pos))
        return r

    # honest presentation (with the model's proof, so a wrong client proof does not mask the server check)
    r = decide("honest", 0, sc["user"], K, want, cs)
    if r is not None and r.ok:
        # the handed-out objects are keyed by K: client encrypts, server decrypts, both match the model
        data = bytes(rnd.getrandbits(8) for _ in range(rnd.choice([6, 24, 47])))
        e = w.call("hc_enc", h=3, data=data)
        m = model_cipher(x, K, "c2s")
        wire = m.enc(data) if x != "w" else m.apply(data)
        mon.count("crypto_traffic_compared")
        if e.status != "ok" or e.b("data") != wire:
            viol("client_crypto_not_keyed_by_K", "client->server bytes differ from the model cipher keyed with the session key")
        d = w.call("hc_dec", h=4, data=wire)
        if d.status != "ok" or d.b("data") != data:
            viol("server_crypto_not_keyed_by_K", "server-side decrypt of model ciphertext does not return the plaintext")
        data2 = bytes(rnd.getrandbits(8) for _ in range(9))
        e2 = w.call("hc_enc", h=4, data=data2)
        m2 = model_cipher(x, K, "s2c")
        wire2 = m2.enc(data2) if x != "w" else m2.apply(data2)
        if e2.status != "ok" or e2.b("data") != wire2:
            viol("server_crypto_encrypt", "server->client bytes differ from the model cipher")
        d2 = w.call("hc_dec", h=3, data=wire2)
        if d2.status != "ok" or d2.b("data") != data2:
            viol("client_crypto_decrypt", "client-side decrypt of model ciphertext does not return the plaintext")
    full = sc["perts"] == "full"
    # case-changed name: same normalised name => accept
    decide("case_changed_name", 0, case_variant(rnd, sc["user"]), K, want, cs)
    # swapped seeds
    if cs != ss:
        decide("proof_for_swapped_seeds", 0, sc["user"], K, M.world_proof(un, ss, cs, K), cs)
        decide("presented_seed_is_server_seed", 0, sc["user"], K, want, ss)
    for d in ((1, -1, 256, 65536, 1 << 24) if full else (rnd.choice([1, -1, 256, 1 << 24]),)):
        decide("client_seed_offset", d, sc["user"], K, want, (cs + d) & 0xFFFFFFFF)
    for bit in (range(32) if full else rnd.sample(range(32), 2)):
        decide("client_seed_bitflip", bit, sc["user"], K, want, cs ^ (1 << bit))
    # proof for another server seed (client computed against a different server)
    for bit in (range(32) if full else rnd.sample(range(32), 2)):
        decide("proof_for_other_server_seed", bit, sc["user"], K, M.world_proof(un, cs, ss ^ (1 << bit), K), cs)
    # every byte of K
    for i in (range(40) if full else rnd.sample(range(40), 2)):
        k2 = bytearray(K)
        k2[i] ^= 1 << rnd.randrange(8)
        decide("session_key_byte", i, sc["user"], bytes(k2), want, cs)
    for bit in (range(160) if full else rnd.sample(range(160), 3)):
        decide("proof_bitflip", bit, sc["user"], K, flipbit(want, bit), cs)
    for name, pp in (("all_zero", bytes(20)), ("all_ff", b"\xff" * 20), ("is_key_prefix", K[:20]), ("is_name_hash", M.H(un.encode()))):
        decide("constant_proof", name, sc["user"], K, pp, cs)
    canc = [("reversed", want[::-1]), ("rotated", want[1:] + want[:1])]
    for _ in range(6 if full else 1):
        i, j = rnd.sample(range(20), 2)
        bit = 1 << rnd.randrange(8)
        xx = bytearray(want)
        xx[i] ^= bit
        xx[j] ^= bit
        canc.append(("same_bit_in_two_bytes", bytes(xx)))
    for name, pp in (canc if full else rnd.sample(canc, 2)):
        decide("proof_cancelling_change", name, sc["user"], K, pp, cs)
    for k in ((1, 4, 10, 19) if full else (rnd.choice([1, 19]),)):
        decide("proof_truncated", k, sc["user"], K, want[:k] + bytes(20 - k), cs)
    other = un[:-1] + ("Y" if un[-1] != "Y" else "Z")
    decide("other_name", 0, other, K, want, cs)
    if sc.get("other_name_override"):
        # the name that collides with this one under a 32-bit string hash: its server must refuse this proof
        decide("colliding_name", 0, sc["other_name_override"], K, want, cs)
        decide("honest_again", 1, sc["user"], K, want, cs)
    if len(un) < 16:
        decide("name_extended", 0, un + "A", K, want, cs)
    # finish with the honest presentation again, so that the last computation of this login is the honest one
    # (the next login on this executor may be a related one: swapped seeds, same XOR, ...)
    decide("honest_again", 0, sc["user"], K, want, cs)
    mon.sample({"module": x, "user": sc["user"], "cseed": cs, "sseed": ss, "proof": proof.hex()}, cap=5)


def make(rnd, x, full, boundary):
    sc = {"x": x, "user": rand_cred(rnd), "K": bytes(rnd.getrandbits(8) for _ in range(40)).hex(),
          "pseed": rnd.getrandbits(32), "perts": "full" if full else "sampled"}
    sc["cuser"] = case_variant(rnd, sc["user"])
    if rnd.random() < 0.15:
        sc["noise"] = rnd.getrandbits(16)
    r = rnd.random()
    if r < 0.02:
        sc["K"] = bytes(40).hex()
    elif r < 0.04:
        sc["K"] = (b"\xff" * 40).hex()
    if boundary:
        a = rnd.choice(BOUNDARY)
        b = a if rnd.random() < 0.3 else rnd.choice(BOUNDARY)
        sc["cseed"], sc["sseed"] = a, b
    return sc


def related_history(w, rnd, mon, x):
    """Consecutive logins on one executor thread that share the name and the session key while the seeds are related
    (swapped, same XOR, same sum, one equal), then the same seeds with session keys sharing a long prefix / suffix. A value
    remembered from an earlier login (partial cache key) shows up as a wrong proof or a wrong decision here."""
    base = make(rnd, x, False, False)
    c, s_ = rnd.getrandbits(32), rnd.getrandbits(32)
    d = rnd.getrandbits(32) | 1
    pairs = [(c, s_), (s_, c), (c ^ d, s_ ^ d), (c, s_), ((c + d) & 0xFFFFFFFF, (s_ - d) & 0xFFFFFFFF), (c, c), (s_, s_), (c, s_ ^ d), (c ^ d, s_)]
    for (a, b) in pairs:
        sc = dict(base)
        sc["cseed"], sc["sseed"] = a, b
        sc["pseed"] = rnd.getrandbits(32)
        run_login(w, sc, mon)
        mon.count("related_seed_logins")
    K = bytearray(bytes.fromhex(base["K"]))
    for pos in (39, 0, 8, 20, 32):
        K2 = bytearray(K)
        K2[pos] ^= 1 << rnd.randrange(8)
        sc = dict(base)
        sc["K"] = bytes(K2).hex()
        sc["cseed"], sc["sseed"] = c, s_
        sc["pseed"] = rnd.getrandbits(32)
        run_login(w, sc, mon)
        mon.count("related_key_logins")
    for name in (base["user"][:-1] or "Q", base["user"] + "x" if len(base["user"]) < 16 else base["user"][:15], base["user"].swapcase()):
        sc = dict(base)
        sc["user"] = name
        sc["cuser"] = name
        sc["cseed"], sc["sseed"] = c, s_
        sc["pseed"] = rnd.getrandbits(32)
        run_login(w, sc, mon)
        mon.count("related_name_logins")


def colliding_names(w, rnd, mon, x, pairs):
    """Two accounts whose names collide under a common 32-bit string hash log in one after the other with the same key and
    seeds; the proof made for one name must be refused for the other."""
    for (hname, a, b) in pairs:
        base = make(rnd, x, False, False)
        base["cseed"], base["sseed"] = rnd.getrandbits(32), rnd.getrandbits(32)
        for first, second in ((a, b), (b, a)):
            for name in (first, second, first):
                sc = dict(base)
                sc["user"] = name
                sc["cuser"] = name.lower()
                sc["pseed"] = rnd.getrandbits(32)
                sc["other_name_override"] = second if name == first else first
                run_login(w, sc, mon)
        mon.count("colliding_name_pairs")


def worker(idx, nworkers, tier, seed, extra):
    mon = Monitor()
    rnd = rng_for(seed, "c06", idx)
    nfull, nsamp = {"quick": (6, 700), "thorough": (200, 50000)}[tier]
    w = Wsx()
    try:
        from common import load_name_collisions
        pairs = load_name_collisions()
        if pairs:
            mine = [p for i, p in enumerate(pairs) if i % nworkers == idx]
            for x in ("v", "t", "w"):
                colliding_names(w, rnd, mon, x, mine)
        # the three modules are interleaved on one executor (order of use must not matter)
        for i in range(nfull):
            for x in rnd.sample(("v", "t", "w"), 3):
                run_login(w, make(rnd, x, True, i % 2 == 0), mon)
        for i in range(nsamp):
            for x in rnd.sample(("v", "t", "w"), 3):
                run_login(w, make(rnd, x, False, rnd.random() < 0.25), mon)
                if i % 100 == 0:
                    related_history(w, rnd, mon, x)
            # identical inputs through the three modules are compared with the same model => they agree
    except ExecutorDied as e:
        mon.violation("c06:executor_died", "executor died rc=%s" % e.rc, {"engine": "wsx", "kind": "raw", "commands": e.last_cmds})
    finally:
        w.close()
    return mon


def replay(sc):
    mon = Monitor()
    w = Wsx()
    try:
        run_login(w, sc, mon)
    finally:
        w.close()
    return mon
