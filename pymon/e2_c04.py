"""C04, E1 part: the rule also governs the server's own B and the client's own A (own-key paths).

Server: with b = 1 injected, B = 3v + 7 (mod N); the stored verifier v = (B* - 7) / 3 (mod N) makes the server
generate any chosen B*. Client: under a tiny announced group A = g^a mod N' is 0 exactly when N' divides g.
"""
import model as M
from common import rng_for
from wsx import Wsx, ExecutorDied


def extra(mon, tier, seed):
    n, bad = M.self_check(60)
    if bad:
        mon.inconc("python model self-check failed; own-key paths not judged")
        return
    rnd = rng_for(seed, "c04own")
    inv3 = pow(3, -1, M.N)
    targets = [("small_183", 183), ("small_0x9b00", 0x9b00), ("N+1", M.N + 1), ("N-1", M.N - 1), ("N-2", M.N - 2), ("one", 1),
               ("two", 2), ("2^256-1", 2 ** 256 - 1)]
    for i in range(40 if tier == "quick" else 400):
        mask = rnd.getrandbits(32)
        if mask in (0, 2 ** 32 - 1):
            continue
        x = bytes(M.N_LE[j] if (mask >> j) & 1 else 0 for j in range(32))
        targets.append(("family_member", M.le(x)))
    for i in range(20 if tier == "quick" else 200):
        targets.append(("random", rnd.getrandbits(256)))
    targets += [("zero", 0), ("N", M.N)]
    w = Wsx()
    try:
        for name, bstar in targets:
            if bstar >= 2 ** 256:
                continue
            # B = (3v + 7) mod N is always < N; targets >= N are reachable only as their residue
            want = bstar % M.N
            v = (want - 7) * inv3 % M.N
            w.reset()
            r = w.call("ver_db", into=1, u="OWNKEY", v=M.to_le(v), salt=bytes(32))
            w.script([M.to_le(1)])
            p = w.call("ver_proof", h=1, into=2)
            mon.ev()
            replay = {"engine": "wsx", "kind": "raw", "commands": [r.cmd, "rng_script\tchunks=" + M.to_le(1).hex(), p.cmd]}
            if want == 0:
                # congruent to zero: the generated key must be refused (documented panic of into_proof)
                if p.status == "panic":
                    mon.count("own_B_congruent_zero_refused")
                elif p.ok and M.le(p.b("B")) % M.N == 0:
                    mon.violation("c04:own_B_zero_accepted", "the server produced a public key congruent to 0 (mod N) for itself: %s" % p.f["B"], replay)
                else:
                    mon.inconc("private-key injection ineffective: own-key path of the server not reached")
                mon.cell(("own_B", name))
                continue
            if p.status == "panic":
                if p.rng and p.rng[0] == M.to_le(1):
                    mon.violation("c04:own_B_valid_refused:" + name,
                                  "the server refused its own valid public key B = %s (not congruent to 0 mod N): %s" % (hex(want), p.f.get("msg", "")[:120]),
                                  replay)
                else:
                    mon.inconc("private-key injection ineffective: own-key path of the server not reached")
                continue
            if not p.ok:
                mon.inconc("unexpected result from into_proof: %s" % p.f)
                continue
            got = M.le(p.b("B"))
            if got != want:
                if p.rng and p.rng[0] == M.to_le(1):
                    mon.violation("c04:own_B_value:" + name, "B = %s, expected %s for v=%s b=1" % (hex(got), hex(want), hex(v)), replay)
                else:
                    mon.inconc("private-key injection ineffective: own-key path of the server not reached")
                continue
            mon.count("own_B_valid_produced")
            mon.cell(("own_B", name, want % 7))
            # and the accessor bytes are accepted back by the public constructor
            k = w.call("pk", A=p.b("B"))
            if not k.ok or k.b("bytes") != p.b("B"):
                mon.violation("c04:own_B_roundtrip:" + name, "server_public_key() bytes %s are not accepted/returned unchanged by PublicKey::from_le_bytes: %s" % (p.f["B"], k.f),
                              {"engine": "wsm", "args": ["key", p.f["B"]]})
        # client's own A under tiny announced groups
        primes = [2, 3, 5, 7, 11, 13, 17, 251, 257, 65537]
        # moduli that are not prime are legal announcements too ("whatever modulus the server announced"): A is refused
        # exactly when A mod N' == 0
        low_cleared = M.le(bytes(8) + M.N_LE[8:])
        primes += [4, 6, 9, 15, 256, 65536, 3 * 2 ** 64, 2 ** 128, 3 * 2 ** 200, low_cleared, M.N - 1, 255 * 2 ** 16, 10 ** 12]
        inj_ok = False
        pre = []
        ncall = 0
        for p_ in primes:
            for g in sorted(set([2, 3, 5, 7, 14, 21, 22, 26, 33, 34, 35, 39, 51, 55, 65, 77, 85, 91, 119, 143, 187, 221, 251, 255]
                                + [p_ * k for k in range(1, 256 // p_ + 1) if p_ * k < 256 and p_ * k >= 2][:6])):
                a = rnd.getrandbits(256) | 1
                x = M.calc_x("OWNKEY", "PW", bytes(32))
                v = pow(g, x, p_)
                B = (3 * v + pow(g, 5, p_)) % p_
                if B == 0:
                    B += p_
                w.reset()
                ncall += 1
                if ncall % 23 == 5:
                    # a sibling call that fails (announced modulus 0 or 1: whatever it does - it panics on the reference tree - is
                    # not judged) must leave nothing behind for the calls that follow in this process
                    bad = w.call("cli_new", into=4, u="OWNKEY", p="PW", g=7, N=M.to_le(ncall % 2), B=M.to_le(5), salt=bytes(32))
                    pre = [bad.cmd]
                    mon.count("contained_failing_sibling_calls")
                w.script([M.to_le(a)])
                r = w.call("cli_new", into=3, u="OWNKEY", p="PW", g=g, N=M.to_le(p_), B=M.to_le(B), salt=bytes(32))
                mon.ev()
                if r.rng and r.rng[0] == M.to_le(a):
                    inj_ok = True
                replay = {"engine": "wsx", "kind": "raw", "commands": pre + ["rng_script\tchunks=" + M.to_le(a).hex(), r.cmd]}
                A = pow(g, a, p_)
                if A % p_ == 0:
                    if r.status == "panic":
                        mon.count("own_A_congruent_zero_refused")
                        msg = r.f.get("msg", "")
                        # A is the integer 0 here: if the panic names an error kind it must be the "is zero" kind
                        if A == 0 and "PublicKeyModLargeSafePrimeIsZero" in msg and "PublicKeyIsZero" not in msg:
                            mon.violation("c04:own_A_zero_reported_with_wrong_kind",
                                          "client key A = 0 (g=%d, N'=%d) is refused but reported as 'mod large safe prime is zero' instead of 'is zero': %s" % (g, p_, msg[:160]), replay)
                        elif "PublicKeyIsZero" in msg:
                            mon.count("own_A_zero_kind_named_correctly")
                    elif r.ok and M.le(r.b("A")) % p_ == 0:
                        mon.violation("c04:own_A_zero_accepted", "client produced A = 0 (mod N') for g=%d N'=%d" % (g, p_), replay)
                    mon.cell(("own_A_zero", p_, g))
                    continue
                # A != 0: must be produced unless the exchange is degenerate (S = 0, C14's business)
                cli = M.ClientSide("OWNKEY", "PW", a, g, M.to_le(p_))
                S = cli.session(M.to_le(B), bytes(32))["S"]
                if r.status == "panic":
                    if S == 0:
                        mon.count("degenerate_S0_skipped")
                        continue
                    if (r.rng and r.rng[0] == M.to_le(a)) or (inj_ok and not r.rng):
                        mon.violation("c04:own_A_valid_refused", "client panicked although A = %d is not 0 mod %d (g=%d): %s" % (A, p_, g, r.f.get("msg", "")[:100]), replay)
                    continue
                if r.ok:
                    if r.b("A") == M.to_le(A):
                        mon.count("own_A_valid_produced")
                        mon.cell(("own_A", p_, g % p_))
                    elif r.rng and r.rng[0] == M.to_le(a):
                        mon.violation("c04:own_A_value", "A = %s, expected %d (g=%d N'=%d)" % (r.f["A"], A, g, p_), replay)
    except ExecutorDied as e:
        mon.violation("c04:executor_died", "executor died rc=%s" % e.rc, {"engine": "wsx", "kind": "raw", "commands": e.last_cmds})
    finally:
        w.close()
