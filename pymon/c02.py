"""C02 — wrong credentials or any altered handshake value are always rejected (E1, LL + model)."""
import model as M
from common import Monitor, rng_for
from c01 import rand_cred, case_variant
from wsx import Wsx, ExecutorDied, fmt

RULE = ("per session (credentials, injected salt/a/b) a baseline login plus perturbed presentations against clones of the "
        "same server/client state; verdict expected = (presented proof == model's proof for the values the verifier side "
        "holds). A case is distinct by (perturbation kind, position) per session class; non-trivial = every perturbed "
        "presentation (expected reject) and every must-accept variant (case change)")

N_HEX = M.N_LE.hex()


def flip(b, bit):
    x = bytearray(b)
    x[bit // 8] ^= 1 << (bit % 8)
    return bytes(x)


def other_cred(rnd, s):
    """A credential that differs from s after normalisation."""
    for _ in range(100):
        mode = rnd.randint(0, 4)
        if mode == 0 and len(s) > 1:
            t = s[:-1]
        elif mode == 1 and len(s) < 16:
            t = s + rnd.choice("xY9 ")
        elif mode == 2:
            i = rnd.randrange(len(s))
            t = s[:i] + chr(0x20 + (ord(s[i]) - 0x20 + rnd.randint(1, 94)) % 95) + s[i + 1:]
        elif mode == 3 and len(s) > 1:
            t = s[::-1]
        else:
            t = rand_cred(rnd)
        if t and M.norm(t) != M.norm(s) and len(t) <= 16:
            return t
    return "Z" if M.norm(s) != "Z" else "Y"


class Sess:
    pass


def run_session(w, sc, mon):
    """sc: user, pw, salt, a, b (hex), perts: list of perturbation descriptors or 'full'."""
    rnd = rng_for(sc["pseed"], "c02pert")
    un, pn = M.norm(sc["user"]), M.norm(sc["pw"])
    salt = bytes.fromhex(sc["salt"])
    a = M.le(bytes.fromhex(sc["a"]))
    b = M.le(bytes.fromhex(sc["b"]))
    replay = {"engine": "wsx", "kind": "c02", "scenario": sc}

    def viol(sig, what):
        mon.violation("c02:" + sig, what, replay)

    w.reset()
    w.script([sc["salt"]])
    ver = w.call("ver_new", into=1, u=sc["user"], p=sc["pw"])
    if ver.status == "panic":
        viol("panic:ver_new", ver.f.get("msg"))
        return
    v_bytes = ver.b("v")
    if ver.b("salt") != salt:
        mon.inconc("salt injection ineffective (the library draws its salt another way); the salt read from the accessor is used instead")
        salt = ver.b("salt")
    w.script([sc["b"]])
    pr = w.call("ver_proof", h=1, into=3)
    if pr.status != "ok":
        viol("panic:ver_proof", str(pr.f))
        return
    B = pr.b("B")
    # the server-side model needs b: scripted value, else whatever reading of the logged draws explains B, else unknown
    from sessions import key_candidates
    srv = None
    for cand in [bytes.fromhex(sc["b"])] + key_candidates(pr.rng):
        t = M.ServerSide(un, v_bytes, salt, M.le(cand))
        if t.B_bytes == B:
            srv = t
            b = M.le(cand)
            break
    if srv is None:
        mon.inconc("server private key neither injectable nor attributable: decisions that need the server-side model (perturbed A, "
                   "replays) are skipped; proof sweeps are judged against the accepted baseline (black-box mode)")
    w.script([sc["a"]])
    cl = w.call("cli_new", into=4, u=sc["cuser"], p=sc["cpw"], g=7, N=N_HEX, B=B, salt=salt)
    if cl.status != "ok":
        viol("panic:cli_new", str(cl.f))
        return
    A = cl.b("A")
    M1 = cl.b("M1")
    ms = srv.session(A) if srv is not None else None
    # --- baseline must be accepted (this is C01 again, but it anchors the sweep)
    base = w.call("proof_server", h=3, keep=1, into=5, A=A, M1=M1)
    mon.ev()
    if not base.ok:
        viol("baseline_rejected", "baseline login refused: %s" % base.f)
        return
    M2 = base.b("M2")
    K = base.b("K")
    mon.cell(("baseline",))
    if ms is None:
        # black-box mode: the accepted baseline defines the right values for the unperturbed A
        ms = {"M1": M1, "M2": M2, "K": K}

    full = sc["perts"] == "full"

    def server_decision(kind, pos, A_p, M1_p):
        """Present (A_p, M1_p) to a clone of the server state; judge iff."""
        mon.ev()
        r = w.call("proof_server", h=3, keep=1, into=7, A=A_p, M1=M1_p)
        if r.status == "panic":
            viol("panic:into_server:" + kind, "into_server panicked: %s" % r.f.get("msg"))
            return
        if r.status == "err" and r.f.get("stage") == "pk":
            mon.count("perturbed_A_refused_as_public_key")
            return
        if A_p != A and srv is None:
            mon.count("decisions_skipped_without_server_model")
            return
        exp = srv.session(A_p) if A_p != A else ms
        accept = (M1_p == exp["M1"])
        if accept:
            mon.count("expected_accept")
            if not r.ok:
                viol("reject_of_correct:" + kind, "server refused the proof the model says is the right one (%s %s)" % (kind, pos))
            elif r.b("M2") != exp["M2"] or r.b("K") != exp["K"]:
                viol("accept_wrong_values:" + kind, "accepted but M2/K differ from the model (%s %s)" % (kind, pos))
        else:
            mon.count("expected_reject")
            if r.ok:
                viol("accept_of_wrong:" + kind, "server ACCEPTED a wrong presentation: kind=%s pos=%s A=%s M1=%s (right M1=%s)" % (
                    kind, pos, A_p.hex(), M1_p.hex(), exp["M1"].hex()))
            else:
                if {r.b("client_proof"), r.b("server_proof")} != {M1_p, exp["M1"]}:
                    viol("error_payload:" + kind, "MatchProofsError carries client_proof=%s server_proof=%s, expected presented=%s computed=%s" % (
                        r.f.get("client_proof"), r.f.get("server_proof"), M1_p.hex(), exp["M1"].hex()))
        mon.cell((kind, pos))

    def client_decision(kind, pos, M2_p):
        mon.ev()
        r = w.call("cli_verify", h=4, keep=1, into=8, M2=M2_p)
        if r.status == "panic":
            viol("panic:verify_server_proof:" + kind, r.f.get("msg"))
            return
        accept = (M2_p == ms["M2"])
        if accept:
            mon.count("expected_accept")
            if not r.ok:
                viol("client_reject_of_correct:" + kind, "client refused the right server proof")
            elif r.b("K") != ms["K"]:
                viol("client_K:" + kind, "client session key differs from model")
        else:
            mon.count("expected_reject")
            if r.ok:
                viol("client_accept_of_wrong:" + kind, "client ACCEPTED a wrong server proof: kind=%s pos=%s presented=%s right=%s" % (
                    kind, pos, M2_p.hex(), ms["M2"].hex()))
            else:
                if {r.b("server_proof"), r.b("client_proof")} != {M2_p, ms["M2"]}:
                    viol("client_error_payload:" + kind, "MatchProofsError carries client_proof=%s server_proof=%s, expected own=%s presented=%s" % (
                        r.f.get("client_proof"), r.f.get("server_proof"), ms["M2"].hex(), M2_p.hex()))
        mon.cell((kind, pos))

    def client_variant(kind, pos, cu, cp, B_p, salt_p, must_accept=False):
        """A client with altered inputs computes its own proof; the server decides on it."""
        w.script([sc["a"]])
        r = w.call("cli_new", into=9, u=cu, p=cp, g=7, N=N_HEX, B=B_p, salt=salt_p)
        if r.status == "panic":
            # hostile B handled in C14; here only honest-but-wrong inputs. Bit flips of B can
            # make S = 0 only with negligible probability.
            viol("panic:cli_new:" + kind, r.f.get("msg"))
            return
        if r.status == "err":
            mon.count("perturbed_B_refused_as_public_key")
            return
        server_decision(kind, pos, r.b("A"), r.b("M1"))
        if must_accept:
            mon.count("must_accept_variants")

    # server-side: proof perturbations
    bits = range(160) if full else rnd.sample(range(160), 3)
    for bit in bits:
        server_decision("M1_bitflip", bit, A, flip(M1, bit))
    pats = [("zero", bytes(20)), ("ones", b"\xff" * 20), ("rot1", M1[1:] + M1[:1]), ("rev", M1[::-1]), ("is_M2", M2),
            ("is_K_prefix", K[:20])]
    for k in range(1, 20):
        pats.append(("trunc%d" % k, M1[:k] + bytes(20 - k)))
        pats.append(("tail%d" % k, bytes(20 - k) + M1[20 - k:]))
    if full:
        # the same bit flipped in two different bytes, every pair of byte positions (differences that cancel in a folded compare)
        for i in range(20):
            for j in range(i + 1, 20):
                bit = 1 << ((i * 7 + j) % 8)
                x = bytearray(M1)
                x[i] ^= bit
                x[j] ^= bit
                pats.append(("pair%d_%d" % (i, j), bytes(x)))
    else:
        i, j = rnd.sample(range(20), 2)
        x = bytearray(M1)
        x[i] ^= 0x10
        x[j] ^= 0x10
        pats.append(("pair", bytes(x)))
        k4 = rnd.randrange(16)
        x = bytearray(M1)
        x[k4 % 4] ^= 0x04
        x[16 + k4 % 4] ^= 0x04
        pats.append(("mirrored_words", bytes(x)))
    # differences that cancel under addition modulo 256 (a compare that sums XOR or arithmetic differences)
    i, j = rnd.sample(range(20), 2)
    d = rnd.randrange(1, 256)
    x = bytearray(M1)
    x[i] ^= d
    x[j] ^= (256 - d) & 0xFF
    pats.append(("xor_sum_cancel", bytes(x)))
    x = bytearray(M1)
    x[i] = (x[i] + d) & 0xFF
    x[j] = (x[j] - d) & 0xFF
    pats.append(("add_cancel", bytes(x)))
    for name, p in (pats if full else rnd.sample(pats, 3)):
        server_decision("M1_pattern", name, A, p)
    # A perturbed, proof kept
    bits = range(256) if full else rnd.sample(range(256), 2)
    for bit in bits:
        server_decision("A_bitflip", bit, flip(A, bit), M1)
    # client sees a perturbed B / salt and computes another proof
    bits = range(256) if full else rnd.sample(range(256), 1)
    for bit in bits:
        client_variant("B_bitflip_seen_by_client", bit, sc["cuser"], sc["cpw"], flip(B, bit), salt)
    bits = range(256) if full else rnd.sample(range(256), 1)
    for bit in bits:
        client_variant("salt_bitflip_seen_by_client", bit, sc["cuser"], sc["cpw"], B, flip(salt, bit))
    # other credentials
    nvar = 12 if full else 1
    for i in range(nvar):
        client_variant("other_password", i, sc["cuser"], other_cred(rnd, sc["pw"]), B, salt)
        client_variant("other_username", i, other_cred(rnd, sc["user"]), sc["cpw"], B, salt)
    # blanks are ordinary characters of a credential: one more or one fewer at either end is another credential
    for nm, cu_, cp_ in (("pw_trailing_blank", sc["cuser"], sc["cpw"] + " "), ("user_trailing_blank", sc["cuser"] + " ", sc["cpw"]),
                         ("pw_leading_blank", sc["cuser"], " " + sc["cpw"]), ("pw_trailing_blank_dropped", sc["cuser"], sc["cpw"].rstrip(" ")),
                         ("user_trailing_blank_dropped", sc["cuser"].rstrip(" "), sc["cpw"])):
        if 1 <= len(cu_) <= 16 and 1 <= len(cp_) <= 16 and (M.norm(cu_), M.norm(cp_)) != (un, pn):
            client_variant("other_credential_blank", nm, cu_, cp_, B, salt)
    if M.norm(sc["user"]) != M.norm(sc["pw"]):
        client_variant("swapped_user_pass", 0, sc["cpw"], sc["cuser"], B, salt)
    # case-only change: must still be accepted
    for i in range(4 if full else 1):
        client_variant("case_only_change", i, case_variant(rnd, sc["user"]), case_variant(rnd, sc["pw"]), B, salt, must_accept=True)
    # client-side: server proof perturbations
    bits = range(160) if full else rnd.sample(range(160), 3)
    for bit in bits:
        client_decision("M2_bitflip", bit, flip(M2, bit))
    pats2 = [("zero", bytes(20)), ("ones", b"\xff" * 20), ("is_M1", M1), ("rot1", M2[1:] + M2[:1]), ("rev", M2[::-1])]
    for k in range(1, 20):
        pats2.append(("trunc%d" % k, M2[:k] + bytes(20 - k)))
        pats2.append(("tail%d" % k, bytes(20 - k) + M2[20 - k:]))
    if full:
        for i in range(20):
            for j in range(i + 1, 20):
                bit = 1 << ((i * 5 + j) % 8)
                x = bytearray(M2)
                x[i] ^= bit
                x[j] ^= bit
                pats2.append(("pair%d_%d" % (i, j), bytes(x)))
    else:
        i, j = rnd.sample(range(20), 2)
        x = bytearray(M2)
        x[i] ^= 0x02
        x[j] ^= 0x02
        pats2.append(("pair", bytes(x)))
    # differences that cancel under addition modulo 256 (a compare that sums XOR or arithmetic differences)
    i, j = rnd.sample(range(20), 2)
    d = rnd.randrange(1, 256)
    x = bytearray(M2)
    x[i] ^= d
    x[j] ^= (256 - d) & 0xFF
    pats2.append(("xor_sum_cancel", bytes(x)))
    x = bytearray(M2)
    x[i] = (x[i] + d) & 0xFF
    x[j] = (x[j] - d) & 0xFF
    pats2.append(("add_cancel", bytes(x)))
    for name, p in (pats2 if full else rnd.sample(pats2, 3)):
        client_decision("M2_pattern", name, p)
    client_decision("M2_correct", 0, M2)
    # the same account record, a fresh SrpProof (new b, new B): the recorded (A, M1) of the login above must be refused,
    # and an honest client answering the new B must be accepted
    if srv is None:
        mon.sample({"user": sc["user"], "pw": sc["pw"], "perts": sc["perts"], "mode": "black-box"})
        return
    b2 = bytes(rnd.getrandbits(8) for _ in range(32))
    w.call("ver_db", into=11, u=sc["user"], v=v_bytes, salt=salt)
    w.script([b2])
    pr2 = w.call("ver_proof", h=11, into=13)
    if pr2.ok:
        srv2 = M.ServerSide(un, v_bytes, salt, M.le(b2))
        if srv2.B_bytes == pr2.b("B") and srv2.B_bytes != B:
            mon.ev()
            r = w.call("proof_server", h=13, keep=1, into=14, A=A, M1=M1)
            exp2 = srv2.session(A)
            mon.count("expected_reject")
            if r.ok:
                viol("accept_of_wrong:replay_against_fresh_B", "server ACCEPTED the (A, M1) recorded in an earlier login against a fresh SrpProof with another B")
            elif r.status == "err" and ({r.b("client_proof"), r.b("server_proof")} != {M1, exp2["M1"]}):
                viol("error_payload:replay_against_fresh_B", "error payload differs from (presented, model) on a replay against a fresh B")
            mon.cell(("replay_against_fresh_B", 0))
            # honest client for the new B
            w.script([sc["a"]])
            c2 = w.call("cli_new", into=15, u=sc["cuser"], p=sc["cpw"], g=7, N=N_HEX, B=pr2.b("B"), salt=salt)
            if c2.ok:
                mon.ev()
                r2 = w.call("proof_server", h=13, keep=1, into=16, A=c2.b("A"), M1=c2.b("M1"))
                e3 = srv2.session(c2.b("A"))
                mon.count("expected_accept")
                if not r2.ok:
                    viol("reject_of_correct:after_replay", "honest login against the fresh SrpProof refused after a replay attempt")
                elif r2.b("M2") != e3["M2"] or r2.b("K") != e3["K"]:
                    viol("accept_wrong_values:after_replay", "M2/K of the login after a refused replay differ from the model")
                mon.cell(("honest_after_replay", 0))
    mon.sample({"user": sc["user"], "pw": sc["pw"], "perts": sc["perts"], "A": A.hex()[:16] + "..", "M1": M1.hex()})


def make_scenario(rnd, full):
    user = rand_cred(rnd)
    pw = rand_cred(rnd)
    return {"user": user, "pw": pw, "cuser": case_variant(rnd, user), "cpw": case_variant(rnd, pw),
            "salt": bytes(rnd.getrandbits(8) for _ in range(32)).hex(),
            "a": bytes(rnd.getrandbits(8) for _ in range(32)).hex(),
            "b": bytes(rnd.getrandbits(8) for _ in range(32)).hex(),
            "pseed": rnd.getrandbits(32), "perts": "full" if full else "sampled"}


def worker(idx, nworkers, tier, seed, extra):
    mon = Monitor()
    rnd = rng_for(seed, "c02", idx)
    n_full, n_samp = {"quick": (13, 1250), "thorough": (600, 40000)}[tier]
    w = Wsx()
    try:
        first = {1: 2, 2: 3, 3: 257}.get(idx % 4)
        if first:
            # the first library use of this process is a client session under another announced modulus (not judged)
            w.call("cli_new", into=9, u="First", p="session", g=7, N=M.to_le(first), B=M.to_le(1), salt=bytes(32))
            mon.count("executors_started_with_another_modulus")
        for i in range(n_full):
            sc = make_scenario(rnd, True)
            run_session(w, sc, mon)
            mon.count("full_sweep_sessions")
        for i in range(n_samp):
            sc = make_scenario(rnd, False)
            run_session(w, sc, mon)
            mon.count("sampled_sessions")
    except ExecutorDied as e:
        mon.violation("c02:executor_died", "executor died rc=%s" % e.rc, {"engine": "wsx", "kind": "raw", "commands": e.last_cmds})
    finally:
        w.close()
    return mon


def replay(sc):
    mon = Monitor()
    w = Wsx()
    try:
        run_session(w, sc, mon)
    finally:
        w.close()
    return mon
