"""C03 — every handshake value is byte-exact WoW SRP6, for any announced group
(E1: library server <-> model client, model server <-> library client, white-box add-on)."""
import model as M
from common import Monitor, rng_for
from c01 import rand_cred, case_variant, load_corpus, validate_corpus_entry
from wsx import Wsx, ExecutorDied

RULE = ("handshakes between the library and an independent model peer: LM = library server with model client, "
        "ML = model server with library client; every value that leaves the API (v, B, A, M1, M2, K) is compared with the "
        "model. Distinct non-trivial cases = cells (side, group class, generator class, low-order zero bytes z of S, "
        "high-order zero bytes of S, negative base); steering drives every z in 0..31 on both sides")

N_HEX = M.N_LE.hex()
MZ = [None, 1, 1, 10, 18, 6, 15, 27, 12, 40, 18, 61, 57, 43, 15, 7, 21, 222, 43, 81, 36, 15, 112, 25, 133, 6, 6, 31, 372,
      25, 136, 207]


def is_probable_prime(n, rnd, rounds=40):
    if n < 2:
        return False
    for p in (2, 3, 5, 7, 11, 13, 17, 19, 23, 29, 31, 37):
        if n % p == 0:
            return n == p
    d = n - 1
    r = 0
    while d % 2 == 0:
        d //= 2
        r += 1
    for _ in range(rounds):
        a = rnd.randrange(2, n - 1)
        x = pow(a, d, n)
        if x == 1 or x == n - 1:
            continue
        for _ in range(r - 1):
            x = x * x % n
            if x == n - 1:
                break
        else:
            return False
    return True


def random_prime(rnd, bits):
    while True:
        c = rnd.getrandbits(bits) | (1 << (bits - 1)) | 1
        if is_probable_prime(c, rnd, 24):
            return c


def rb(rnd, n):
    return bytes(rnd.getrandbits(8) for _ in range(n))


def cls_of(S, n):
    return "z%d" % M.low_zero_bytes(S), "hz%d" % M.high_zero_bytes(S)


def lm_session(w, sc, mon):
    """Library server <-> model client. sc: user, pw, salt(hex|None), b(hex|None), a(hex), vmode
    ('register' | 'db' | 'v1'), A(hex, optional explicit public key for steering), reimport."""
    replay = {"engine": "wsx", "kind": "c03lm", "scenario": sc}

    def viol(sig, what):
        mon.violation("c03:lm:" + sig, what, replay)

    un, pn = M.norm(sc["user"]), M.norm(sc["pw"])
    w.reset()
    mon.ev()
    if sc["vmode"] == "register":
        if sc.get("salt"):
            w.script([sc["salt"]])
        ver = w.call("ver_new", into=1, u=sc["user"], p=sc["pw"])
        if ver.status != "ok":
            viol("ver_new:" + ver.status, str(ver.f))
            return
        salt = ver.b("salt")
        v_bytes = ver.b("v")
        mv = M.to_le(M.calc_v(un, pn, salt))
        mon.count("verifier_compared")
        if v_bytes != mv:
            viol("verifier", "password_verifier() = %s, model v = %s (user %r pw %r salt %s)" % (v_bytes.hex(), mv.hex(), un, pn, salt.hex()))
            return
        if M.norm(ver.b("user").decode("utf-8", "replace")) != un:
            viol("username", "username() = %r, expected %r" % (ver.b("user"), un))
    else:
        salt = bytes.fromhex(sc["salt"])
        v_bytes = M.to_le(1) if sc["vmode"] == "v1" else M.to_le(M.calc_v(un, pn, salt))
        ver = w.call("ver_db", into=1, u=sc["user"], v=v_bytes, salt=salt)
        if ver.status != "ok" or ver.b("v") != v_bytes or ver.b("salt") != salt:
            viol("ver_db", "accessors differ from constructor arguments: %s" % ver.f)
            return
    if sc.get("b"):
        w.script([sc["b"]])
    pr = w.call("ver_proof", h=1, into=3)
    if pr.status != "ok":
        viol("into_proof:" + pr.status, str(pr.f))
        return
    B = pr.b("B")
    if pr.b("salt") != salt:
        viol("proof_salt", "SrpProof::salt() differs from the record's salt")
    # white-box: B for the logged / injected b
    attributed = False
    if pr.rng and len(pr.rng[0]) == 32:
        b = M.le(pr.rng[0])
        if M.to_le(M.calc_B(M.le(v_bytes), b)) == B:
            attributed = True
            mon.count("B_equals_model_for_logged_b")
        else:
            mon.count("B_not_attributable_to_logged_draw")
    if sc.get("b") and not attributed:
        mon.inconc("server private-key injection ineffective: steering cases that need a chosen b were not reached")
        if sc["vmode"] == "v1":
            return
    # model client
    if sc.get("A"):
        A_bytes = bytes.fromhex(sc["A"])
        S = M.le(A_bytes) % M.N  # v = 1, b = 1  =>  S = A
        K = M.interleave(S)
        M1 = M.calc_M1(un, salt, A_bytes, B, K)
        M2 = M.calc_M2(A_bytes, M1, K)
        neg = False
    else:
        cli = M.ClientSide(un, pn, M.le(bytes.fromhex(sc["a"])))
        A_bytes = cli.A_bytes
        cs = cli.session(B, salt)
        S, K, M1, M2 = cs["S"], cs["K"], cs["M1"], cs["M2"]
        neg = (M.le(B) - 3 * M.le(v_bytes)) < 0
    if S == 0:
        mon.count("degenerate_S0_skipped")
        return
    if sc.get("refused_first"):
        # history: a refused presentation on the same executor thread just before the honest one
        bad = bytes(x ^ 0x01 for x in M1[:1]) + M1[1:]
        rr = w.call("proof_server", h=3, keep=1, into=8, A=A_bytes, M1=bad)
        mon.count("refused_attempt_before_honest")
        if rr.ok:
            viol("accepts_wrong_proof", "library server accepted a proof with one bit changed")
        elif rr.status == "err" and "server_proof" in rr.f:
            # the proofs inside the refusal are values that come out of the public API, too: the presented one and the M1 of the definition
            mon.count("proofs_inside_refusals_compared")
            if {rr.b("client_proof"), rr.b("server_proof")} != {bad, M1}:
                viol("refusal_carries_other_proof:server", "the refusal carries client_proof=%s server_proof=%s; presented %s, M1 by definition %s" % (
                    rr.f.get("client_proof"), rr.f.get("server_proof"), bad.hex(), M1.hex()))
    r = w.call("proof_server", h=3, into=5, A=A_bytes, M1=M1)
    z, hz = cls_of(S, M.N)
    if r.status == "err" and r.f.get("stage") == "pk":
        mon.count("model_A_refused_as_public_key")
        return
    if not r.ok:
        viol("server_rejects_model_client:" + z, "library server refused the model client's proof (%s %s neg=%s): %s" % (z, hz, neg, r.f))
        return
    mon.count("M2_compared")
    mon.count("K_server_compared")
    if r.b("M2") != M2:
        viol("M2:" + z, "server proof %s != model %s" % (r.f["M2"], M2.hex()))
    if r.b("K") != K:
        viol("K_server:" + z, "server session key %s != model %s" % (r.f["K"], K.hex()))
    mon.hist("server_side_low_zero_bytes_of_S", int(z[1:]))
    mon.hist("server_side_high_zero_bytes_of_S", int(hz[2:]))
    mon.cell(("LM", sc["vmode"], z, hz, neg))
    mon.sample({"side": "LM", "user": sc["user"], "vmode": sc["vmode"], "class": [z, hz], "K": K.hex()[:16] + ".."}, cap=3)


def ml_session(w, sc, mon):
    """Model server <-> library client. sc: user, pw, cuser, cpw, salt(hex), g, n(hex LE 32), b(hex), a(hex|None),
    Bmode: 'honest' | 'minus1' (B = k*g^x - 1, steering) | 'unreduced'."""
    replay = {"engine": "wsx", "kind": "c03ml", "scenario": sc}

    def viol(sig, what):
        mon.violation("c03:ml:" + sig, what, replay)

    un, pn = M.norm(sc["user"]), M.norm(sc["pw"])
    salt = bytes.fromhex(sc["salt"])
    g = sc["g"]
    n_le = bytes.fromhex(sc["n"])
    n = M.le(n_le)
    x = M.calc_x(un, pn, salt)
    v = pow(g, x, n)
    b = M.le(bytes.fromhex(sc["b"]))
    if sc["Bmode"] == "minus1":
        Bi = (3 * v - 1) % n
    else:
        Bi = (3 * v + pow(g, b, n)) % n
        if sc["Bmode"] == "unreduced" and Bi + n < 2 ** 256:
            Bi += n
    B = M.to_le(Bi)
    if Bi == 0 or Bi == M.N:
        mon.count("model_B_not_presentable_skipped")
        return
    mon.ev()
    w.reset()
    if sc.get("related_modulus_first"):
        # history: the previous client session on this thread used a modulus made of N's words in another order / with a
        # cancelling difference (its result is not judged)
        nle = bytearray(M.N_LE)
        mode = sc["related_modulus_first"]
        if mode == 1:
            nle[8:16], nle[16:24] = nle[16:24], nle[8:16]
        elif mode == 2:
            for i in range(8):
                nle[8 + i] ^= 0x5A
                nle[16 + i] ^= 0x5A
        elif mode == 3:
            nle = nle[8:] + nle[:8]
        else:
            nle[0] ^= 0x10
            nle[8] ^= 0x10
        w.call("cli_new", into=19, u="Related", p="modulus", g=g, N=bytes(nle), B=M.to_le(5), salt=bytes(32))
        mon.count("sessions_preceded_by_related_modulus")
    if sc.get("noise"):
        w.call("noise", k=sc["noise"])
    predicted = None
    if sc.get("a"):
        a = M.le(bytes.fromhex(sc["a"]))
        cli = M.ClientSide(M.norm(sc["cuser"]), M.norm(sc["cpw"]), a, g, n_le)
        if cli.A % n == 0:
            mon.count("degenerate_A0_skipped")  # documented panic, C04 own-key path
            return
        predicted = cli.session(B, salt)
        if predicted["S"] == 0:
            mon.count("degenerate_S0_skipped")
            return
        w.script([sc["a"]])
    r = w.call("cli_new", into=4, u=sc["cuser"], p=sc["cpw"], g=g, N=n_le, B=B, salt=salt)
    builtin = (n == M.N and g == M.G)
    gcls = "builtin" if builtin else ("N%dB" % ((n.bit_length() + 7) // 8))
    if r.status == "err":
        mon.count("model_B_refused_as_public_key")
        return
    if r.status == "panic":
        if predicted is None:
            # cannot tell a degenerate exchange (S = 0 / A = 0, excluded here) from a defect without knowing a
            mon.count("panic_without_attribution")
            if builtin:
                viol("panic_builtin", "client panicked on an honest server's values with the built-in group: %s" % r.f.get("msg"))
            return
        viol("panic:" + gcls, "client panicked in a non-degenerate exchange (g=%d, N=%s): %s" % (g, hex(n), r.f.get("msg")))
        return
    A_bytes = r.b("A")
    M1 = r.b("M1")
    if predicted is not None:
        if A_bytes != cli.A_bytes:
            if r.rng and len(r.rng[0]) == 32 and r.rng[0] == bytes.fromhex(sc["a"]):
                viol("A:" + gcls, "client public key %s != g^a mod N = %s (g=%d N=%s a=%s)" % (A_bytes.hex(), cli.A_bytes.hex(), g, hex(n), sc["a"]))
                return
            mon.inconc("client private-key injection ineffective: steering cases that need a chosen a were not reached")
            predicted = None
        else:
            mon.count("A_equals_model_for_injected_a")
    elif r.rng and len(r.rng[0]) == 32:
        if M.to_le(pow(g, M.le(r.rng[0]), n)) == A_bytes:
            mon.count("A_equals_model_for_logged_a")
        else:
            mon.count("A_not_attributable_to_logged_draw")
    # model server side (black-box: needs only A)
    A = M.le(A_bytes)
    if A % n == 0:
        mon.count("degenerate_A0_skipped")
        return
    u = M.calc_u(A_bytes, B)
    S = pow(A * pow(v, u, n), b, n) if sc["Bmode"] != "minus1" else predicted["S"] if predicted else None
    if S is None:
        return
    if S == 0:
        mon.count("degenerate_S0_skipped")
        return
    K = M.interleave(S)
    eM1 = M.calc_M1(M.norm(sc["cuser"]), salt, A_bytes, B, K, n_le, g)
    z, hz = cls_of(S, n)
    mon.count("M1_compared")
    if M1 != eM1:
        viol("M1:%s:%s" % (gcls, z), "client proof %s != model %s (g=%d N=%s %s %s)" % (M1.hex(), eM1.hex(), g, hex(n), z, hz))
        return
    M2 = M.calc_M2(A_bytes, M1, K)
    if sc.get("refused_first"):
        ff = w.call("cli_verify", h=4, keep=1, into=7, M2=bytes(x ^ 0x80 for x in M2[:1]) + M2[1:])
        mon.count("refused_attempt_before_honest")
        if ff.ok:
            viol("accepts_wrong_server_proof", "library client accepted a server proof with one bit changed")
        elif ff.status == "err" and "server_proof" in ff.f:
            mon.count("proofs_inside_refusals_compared")
            badm2 = bytes(x ^ 0x80 for x in M2[:1]) + M2[1:]
            if {ff.b("client_proof"), ff.b("server_proof")} != {badm2, M2}:
                viol("refusal_carries_other_proof:client", "the refusal carries client_proof=%s server_proof=%s; presented %s, M2 by definition %s" % (
                    ff.f.get("client_proof"), ff.f.get("server_proof"), badm2.hex(), M2.hex()))
    f = w.call("cli_verify", h=4, into=6, M2=M2)
    if not f.ok:
        viol("client_rejects_model_server:%s:%s" % (gcls, z), "library client refused the model server's proof: %s" % f.f)
        return
    mon.count("K_client_compared")
    if f.b("K") != K:
        viol("K_client:%s:%s" % (gcls, z), "client session key %s != model %s" % (f.f["K"], K.hex()))
    mon.hist("client_side_low_zero_bytes_of_S", int(z[1:]))
    mon.hist("client_side_high_zero_bytes_of_S", int(hz[2:]))
    mon.hist("client_side_group_bytes", gcls)
    if not builtin:
        mon.hist("client_side_generators", g)
    neg = (Bi - 3 * v) < 0
    mon.cell(("ML", gcls, "g7" if g == 7 else "gx", z, hz, neg, sc["Bmode"]))
    mon.sample({"side": "ML", "user": sc["user"], "g": g, "N": hex(n), "class": [z, hz], "K": K.hex()[:16] + ".."}, cap=6)


def secret_with_z(rnd, z):
    """A 32-byte secret below N with exactly z low-order zero bytes (and sometimes high-order zero bytes)."""
    b = bytearray(32)
    for i in range(z + 1, 32):
        b[i] = rnd.getrandbits(8)
    b[z] = rnd.randint(1, 255)
    if z == 31:
        b[31] = rnd.randint(1, 0x88)
    else:
        b[31] = rnd.randint(0, 0x88)
        if rnd.random() < 0.3:
            for i in range(32 - rnd.randint(1, 31 - z), 32):
                if i > z:
                    b[i] = 0
    return M.le(bytes(b))


def steer_client_z(rnd, z, want_odd):
    """Scenario in which the library client's secret is N_z - 1 = m*256^z (odd exponent) or 1 (even)."""
    nz = MZ[z] * 256 ** z + 1
    user, pw = rand_cred(rnd), rand_cred(rnd)
    un, pn = M.norm(user), M.norm(pw)
    salt = rb(rnd, 32)
    g = rnd.choice([2, 3, 5, 7, 11, 13, 200, 255])
    n_le = M.to_le(nz)
    x = M.calc_x(un, pn, salt)
    v = pow(g, x, nz)
    Bi = (3 * v - 1) % nz
    B = M.to_le(Bi)
    for _ in range(200):
        a = rnd.getrandbits(256)
        A = pow(g, a, nz)
        if A == 0:
            continue
        u = M.calc_u(M.to_le(A), B)
        if ((a + u * x) % 2 == 1) == want_odd:
            return {"user": user, "pw": pw, "cuser": user, "cpw": pw, "salt": salt.hex(), "g": g, "n": n_le.hex(),
                    "b": M.to_le(1).hex(), "a": M.to_le(a).hex(), "Bmode": "minus1"}
    return None


def worker(idx, nworkers, tier, seed, extra):
    mon = Monitor()
    rnd = rng_for(seed, "c03", idx)
    n_vol = {"quick": 4000, "thorough": 300000}[tier]
    reps = {"quick": 2, "thorough": 24}[tier]
    w = Wsx()
    try:
        # process history: three of four executors first see a client session under another announced modulus
        # (its result is not judged); state remembered from that first group would disturb the logins that follow
        first = {1: 2, 2: 3, 3: 257}.get(idx % 4)
        if first:
            w.call("cli_new", into=9, u="First", p="session", g=7, N=M.to_le(first), B=M.to_le(1), salt=bytes(32))
            mon.count("executors_started_with_another_modulus")
        # ---- steering: every z = 1..31 on the server (v = 1, b = 1, A = S*)
        for z in range(1, 32):
            if z % nworkers != idx % nworkers and nworkers > 1 and (z + 7) % nworkers != idx:
                continue
            for _ in range(reps):
                S = secret_with_z(rnd, z)
                sc = {"user": rand_cred(rnd), "pw": "x", "salt": rb(rnd, 32).hex(), "b": M.to_le(1).hex(), "vmode": "v1",
                      "A": M.to_le(S).hex()}
                lm_session(w, sc, mon)
                mon.count("steered_server_cases")
        # ---- steering: every z = 1..31 on the client (announced prime m*256^z + 1)
        for z in range(1, 32):
            if (z + 3) % nworkers != idx and (z + 11) % nworkers != idx:
                continue
            nz = MZ[z] * 256 ** z + 1
            if not is_probable_prime(nz, rnd):
                mon.inconc("steering table entry z=%d is not prime" % z)
                continue
            for want_odd in (True, False):
                for _ in range(reps):
                    sc = steer_client_z(rnd, z, want_odd)
                    if sc:
                        ml_session(w, sc, mon)
                        mon.count("steered_client_cases")
        # ---- corpus classes z = 1..3 on the built-in group, both sides
        for i, e in enumerate(load_corpus()):
            if i % nworkers != idx:
                continue
            if validate_corpus_entry(e) < e["z"]:
                continue
            lm_session(w, {"user": e["user"], "pw": e["pw"], "salt": e["salt"], "b": e["b"], "a": e["a"], "vmode": "db"}, mon)
            ml_session(w, {"user": e["user"], "pw": e["pw"], "cuser": case_variant(rnd, e["user"]), "cpw": case_variant(rnd, e["pw"]),
                           "salt": e["salt"], "g": 7, "n": N_HEX, "b": e["b"], "a": e["a"], "Bmode": "honest"}, mon)
            mon.count("corpus_cases")
        # ---- announced groups: all generators against the built-in N (sharded), primes of every byte length
        for g in range(2, 256):
            if g % nworkers != idx:
                continue
            for _ in range(1 if tier == "quick" else 6):
                user, pw = rand_cred(rnd), rand_cred(rnd)
                ml_session(w, {"user": user, "pw": pw, "cuser": case_variant(rnd, user), "cpw": case_variant(rnd, pw),
                               "salt": rb(rnd, 32).hex(), "g": g, "n": N_HEX, "b": rb(rnd, 32).hex(), "a": None,
                               "Bmode": "honest"}, mon)
        tiny = [2, 3, 5, 7, 11, 13, 251, 257, 65521, 65537]
        for nbytes in range(1, 33):
            if nbytes % nworkers != idx and (nbytes + 5) % nworkers != idx:
                continue
            primes = [random_prime(rnd, 8 * nbytes if nbytes > 1 else rnd.randint(3, 8)) for _ in range(2 if tier == "quick" else 8)]
            if nbytes <= 3:
                primes += [p for p in tiny if (p.bit_length() + 7) // 8 == nbytes]
            for p in primes:
                for g in [7, rnd.randint(2, 255), rnd.choice([2, 3, 5, 255])]:
                    for _ in range(2 if tier == "quick" else 6):
                        user, pw = rand_cred(rnd), rand_cred(rnd)
                        ml_session(w, {"user": user, "pw": pw, "cuser": user, "cpw": case_variant(rnd, pw), "salt": rb(rnd, 32).hex(),
                                       "g": g, "n": M.to_le(p).hex(), "b": rb(rnd, 32).hex(), "a": rb(rnd, 32).hex(),
                                       "Bmode": rnd.choice(["honest", "honest", "unreduced"])}, mon)
                        mon.count("announced_group_cases")
        # ---- logins on 16 threads of one process at once, every value compared with the model
        if idx == 5:
            from sessions import parse_transcripts, judge_transcript
            ev = w.call("mt_logins", n=(250 if tier == "quick" else 4200), threads=16, tag=seed * 10 + 5)
            rp = {"engine": "wsx", "kind": "raw", "commands": [ev.cmd]}
            if ev.status != "ok":
                mon.violation("c03:mt:" + ev.f.get("stage", ev.status), "multi-threaded logins failed: %s" % str(ev.f)[:300], rp)
            else:
                for t, d in parse_transcripts(ev, 16):
                    judge_transcript(d, mon, "c03", with_model=True, replay=rp)
                    mon.count("multi_threaded_logins")
                mon.cell(("mt", 5))
        # ---- volume: LM with registration / db records, ML on the built-in group
        for k in range(n_vol):
            user, pw = rand_cred(rnd), rand_cred(rnd)
            if k % 2 == 0:
                mode = "register" if rnd.random() < 0.6 else "db"
                lm_session(w, {"user": user, "pw": pw, "salt": rb(rnd, 32).hex() if (mode == "db" or rnd.random() < 0.1) else None,
                               "b": None, "a": rb(rnd, 32).hex(), "vmode": mode, "refused_first": rnd.random() < 0.2}, mon)
            else:
                ml_session(w, {"user": user, "pw": pw, "cuser": case_variant(rnd, user), "cpw": case_variant(rnd, pw),
                               "salt": rb(rnd, 32).hex(), "g": 7, "n": N_HEX, "b": rb(rnd, 32).hex(), "a": None,
                               "Bmode": "honest", "refused_first": rnd.random() < 0.2,
                               "related_modulus_first": rnd.randint(1, 4) if rnd.random() < 0.1 else 0,
                               "noise": rnd.getrandbits(16) if rnd.random() < 0.1 else 0}, mon)
    except ExecutorDied as e:
        mon.violation("c03:executor_died", "executor died rc=%s" % e.rc, {"engine": "wsx", "kind": "raw", "commands": e.last_cmds})
    finally:
        w.close()
    return mon


def run(tier, seed):
    from common import run_sharded
    mon = run_sharded(worker, tier, seed)
    # every z in 0..31 must have been observed on both sides, else that part is inconclusive
    for side in ("server_side_low_zero_bytes_of_S", "client_side_low_zero_bytes_of_S"):
        missing = [z for z in range(0, 32) if mon.hists[side].get(z, 0) == 0]
        if missing:
            mon.inconc("%s: classes never observed: %s" % (side, missing))
    return mon


def replay_any(r):
    mon = Monitor()
    w = Wsx()
    try:
        if r["kind"] == "c03lm":
            lm_session(w, r["scenario"], mon)
        else:
            ml_session(w, r["scenario"], mon)
    finally:
        w.close()
    return mon
