"""Independent reference model of the World of Warcraft flavour of SRP6.

Written from the property statements and RFC 2945 / RFC 5054; uses only
CPython's arbitrary precision int, pow(b, e, m), hashlib and hmac. Shares no
code, big-integer library or hash implementation with wow_srp.

All byte strings are little-endian fixed-width fields as they appear on the
wire (32-byte keys/salt/verifier, 20-byte proofs, 40-byte session key).
"""
import hashlib
import hmac as _hmac
import os

N_BE_HEX = "894B645E89E1535BBDAD5B8B290650530801B18EBFBF5E8FAB3C82872A3E9BB7"
N = int(N_BE_HEX, 16)
G = 7
K_MULT = 3
N_LE = N.to_bytes(32, "little")


def H(*parts):
    h = hashlib.sha1()
    for p in parts:
        h.update(p)
    return h.digest()


def le(b):
    return int.from_bytes(b, "little")


def to_le(i, n=32):
    return int(i).to_bytes(n, "little")


def norm(s):
    """Credential normalisation: ASCII a..z -> A..Z, nothing else."""
    return "".join(chr(ord(c) - 32) if "a" <= c <= "z" else c for c in s)


def valid_credential(s):
    b = s.encode("utf-8")
    if len(b) == 0 or len(b) > 16:
        return False
    return all(0x20 <= ord(c) <= 0x7E for c in s)


def calc_x(user, pw, salt):
    """x = H(salt | H(U ':' P)), interpreted little-endian. user/pw already normalised str."""
    p = H(user.encode(), b":", pw.encode())
    return le(H(salt, p))


def calc_v(user, pw, salt, g=G, n=N):
    return pow(g, calc_x(user, pw, salt), n)


def calc_B(v, b, g=G, n=N):
    return (K_MULT * v + pow(g, b, n)) % n


def calc_A(a, g=G, n=N):
    return pow(g, a, n)


def calc_u(A_bytes, B_bytes):
    return le(H(A_bytes, B_bytes))


def calc_S_server(A, v, u, b, n=N):
    return pow(A * pow(v, u, n), b, n)


def calc_S_client(B, x, a, u, g=G, n=N):
    # (B - k*g^x)^(a + u*x) mod n, mathematical (non-negative) residue
    return pow((B - K_MULT * pow(g, x, n)) % n, a + u * x, n)


def interleave(S_int):
    """RFC 2945 SHA_Interleave over the 32-byte little-endian secret:
    remove leading (= low-order, first in LE) zero bytes, one more if an odd
    number of bytes remains; hash even and odd bytes; interleave digests."""
    s = to_le(S_int, 32)
    i = 0
    while i < len(s) and s[i] == 0:
        i += 1
    t = s[i:]
    if len(t) % 2 == 1:
        t = t[1:]
    e = H(bytes(t[0::2]))
    f = H(bytes(t[1::2]))
    out = bytearray(40)
    out[0::2] = e
    out[1::2] = f
    return bytes(out)


def low_zero_bytes(S_int):
    s = to_le(S_int, 32)
    i = 0
    while i < 32 and s[i] == 0:
        i += 1
    return i


def high_zero_bytes(x_int):
    s = to_le(x_int, 32)
    i = 0
    while i < 32 and s[31 - i] == 0:
        i += 1
    return i


def xor_hash(n_le32, g):
    hn = H(n_le32)
    hg = H(bytes([g]))
    return bytes(a ^ b for a, b in zip(hn, hg))


def calc_M1(user, salt, A_bytes, B_bytes, K, n_le32=N_LE, g=G):
    return H(xor_hash(n_le32, g), H(user.encode()), salt, A_bytes, B_bytes, K)


def calc_M2(A_bytes, M1, K):
    return H(A_bytes, M1, K)


def reconnect_proof(user, client_data, server_data, K):
    return H(user.encode(), client_data, server_data, K)


def world_proof(user, client_seed, server_seed, K):
    return H(user.encode(), b"\0\0\0\0", client_seed.to_bytes(4, "little"),
             server_seed.to_bytes(4, "little"), K)


class ServerSide:
    """Model of the server for one login, given its private key b."""

    def __init__(self, user, v_bytes, salt, b_int):
        self.user = user
        self.v = le(v_bytes)
        self.salt = salt
        self.b = b_int
        self.B = calc_B(self.v, self.b)
        self.B_bytes = to_le(self.B)

    def session(self, A_bytes):
        A = le(A_bytes)
        u = calc_u(A_bytes, self.B_bytes)
        S = calc_S_server(A, self.v, u, self.b)
        K = interleave(S)
        M1 = calc_M1(self.user, self.salt, A_bytes, self.B_bytes, K)
        M2 = calc_M2(A_bytes, M1, K)
        return dict(S=S, K=K, M1=M1, M2=M2, u=u)


class ClientSide:
    """Model of the client for one login, given its private key a."""

    def __init__(self, user, pw, a_int, g=G, n_le32=N_LE):
        self.user = user
        self.pw = pw
        self.a = a_int
        self.g = g
        self.n_le32 = n_le32
        self.n = le(n_le32)
        self.A = calc_A(a_int, g, self.n)
        self.A_bytes = to_le(self.A)

    def session(self, B_bytes, salt):
        x = calc_x(self.user, self.pw, salt)
        u = calc_u(self.A_bytes, B_bytes)
        S = calc_S_client(le(B_bytes), x, self.a, u, self.g, self.n)
        K = interleave(S)
        M1 = calc_M1(self.user, salt, self.A_bytes, B_bytes, K, self.n_le32, self.g)
        M2 = calc_M2(self.A_bytes, M1, K)
        return dict(S=S, K=K, M1=M1, M2=M2, u=u, x=x)


# ---------------------------------------------------------------------------
# Header ciphers (used by C06 add-on checks on handed-out crypto objects)

TBC_SEED = bytes([0x38, 0xA7, 0x83, 0x15, 0xF8, 0x92, 0x25, 0x30, 0x71, 0x98, 0x67, 0xB1, 0x8C, 0x04, 0xE2, 0xAA])
WRATH_S = bytes([0xC2, 0xB3, 0x72, 0x3C, 0xC6, 0xAE, 0xD9, 0xB5, 0x34, 0x3C, 0x53, 0xEE, 0x2F, 0x43, 0x67, 0xCE])
WRATH_R = bytes([0xCC, 0x98, 0xAE, 0x04, 0xE8, 0x97, 0xEA, 0xCA, 0x12, 0xDD, 0xC0, 0x93, 0x42, 0x91, 0x53, 0x57])


def hmac_sha1(key, msg):
    return _hmac.new(key, msg, hashlib.sha1).digest()


class AddCipher:
    """Vanilla / TBC recurrence c_n = (x_n ^ key[n mod L]) + c_{n-1}."""

    def __init__(self, key):
        self.key = key
        self.i = 0
        self.prev = 0

    def enc(self, data):
        out = bytearray()
        for x in data:
            c = ((x ^ self.key[self.i]) + self.prev) & 0xFF
            self.i = (self.i + 1) % len(self.key)
            self.prev = c
            out.append(c)
        return bytes(out)

    def dec(self, data):
        out = bytearray()
        for c in data:
            x = ((c - self.prev) & 0xFF) ^ self.key[self.i]
            self.i = (self.i + 1) % len(self.key)
            self.prev = c
            out.append(x)
        return bytes(out)


class RC4:
    def __init__(self, key):
        s = list(range(256))
        j = 0
        for i in range(256):
            j = (j + s[i] + key[i % len(key)]) & 0xFF
            s[i], s[j] = s[j], s[i]
        self.s = s
        self.i = 0
        self.j = 0

    def stream(self, n):
        s = self.s
        out = bytearray()
        i, j = self.i, self.j
        for _ in range(n):
            i = (i + 1) & 0xFF
            j = (j + s[i]) & 0xFF
            s[i], s[j] = s[j], s[i]
            out.append(s[(s[i] + s[j]) & 0xFF])
        self.i, self.j = i, j
        return bytes(out)

    def apply(self, data):
        ks = self.stream(len(data))
        return bytes(a ^ b for a, b in zip(data, ks))


def wrath_stream(direction_key, K):
    r = RC4(hmac_sha1(direction_key, K))
    r.stream(1024)
    return r


# ---------------------------------------------------------------------------
# Self-check against the frozen copies of the maintainers' vectors.

VEC = os.path.join(os.path.dirname(os.path.abspath(__file__)), "..", "vectors")


def _be(hexs, n=None):
    b = bytes.fromhex(hexs)
    return b[::-1]


def self_check(limit=250):
    """Returns (checked, mismatches:list[str]). A non-empty mismatch list is a
    harness error (the model is wrong), never a violation."""
    bad = []
    n = 0

    def lines(rel):
        p = os.path.join(VEC, rel)
        with open(p) as f:
            for i, l in enumerate(f):
                if i >= limit:
                    break
                l = l.split()
                if l:
                    yield l

    def pad(b, k):
        return b + bytes(k - len(b))

    for user, pw, salt, exp in lines("srp6_internal/calculate_v_values.txt"):
        n += 1
        v = calc_v(norm(user), norm(pw), pad(_be(salt), 32))
        if to_le(v) != pad(_be(exp), 32):
            bad.append("v " + user)
    for user, pw, exp in lines("srp6_internal/calculate_x_values.txt"):
        n += 1
        salt = pad(_be("CAC94AF32D817BA64B13F18FDEDEF92AD4ED7EF7AB0E19E9F2AE13C828AEAF57"), 32)
        if calc_x(norm(user), norm(pw), salt) != le(pad(_be(exp), 20)):
            bad.append("x " + user)
    for v, b, exp in lines("srp6_internal/calculate_B_values.txt"):
        n += 1
        if calc_B(le(_be(v)), le(_be(b))) != le(_be(exp)):
            bad.append("B " + v)
    for a, exp in lines("srp6_internal/calculate_A_values.txt"):
        n += 1
        if calc_A(le(_be(a))) != le(_be(exp)):
            bad.append("A " + a)
    for A, B, exp in lines("srp6_internal/calculate_u_values.txt"):
        n += 1
        if calc_u(pad(_be(A), 32), pad(_be(B), 32)) != le(pad(_be(exp), 20)):
            bad.append("u " + A)
    for A, v, u, b, exp in lines("srp6_internal/calculate_S_values.txt"):
        n += 1
        if calc_S_server(le(_be(A)), le(_be(v)), le(_be(u)), le(_be(b))) != le(_be(exp)):
            bad.append("S " + A)
    for B, a, x, u, exp in lines("srp6_internal/calculate_client_S_values.txt"):
        n += 1
        if calc_S_client(le(_be(B)), le(_be(x)), le(_be(a)), le(_be(u))) != le(_be(exp)):
            bad.append("cS " + B)
    for S, exp in lines("srp6_internal/calculate_interleaved_values.txt"):
        n += 1
        if interleave(le(bytes.fromhex(S))) != bytes.fromhex(exp):
            bad.append("interleave " + S)
    for A, v, b, exp in lines("srp6_internal/calculate_session_key_values.txt"):
        n += 1
        srv = ServerSide("X", bytes.fromhex(v), bytes(32), le(bytes.fromhex(b)))
        if srv.session(bytes.fromhex(A))["K"] != bytes.fromhex(exp):
            bad.append("K " + A)
    for user, K, A, B, salt, exp in lines("srp6_internal/calculate_M1_values.txt"):
        n += 1
        m1 = calc_M1(norm(user), pad(_be(salt), 32), pad(_be(A), 32), pad(_be(B), 32), bytes.fromhex(K))
        if m1 != _be(exp):
            bad.append("M1 " + user)
    for A, M1, K, exp in lines("srp6_internal/calculate_M2_values.txt"):
        n += 1
        if calc_M2(pad(_be(A), 32), _be(M1), bytes.fromhex(K)) != _be(exp):
            bad.append("M2 " + A)
    for user, cd, sd, K, exp in lines("srp6_internal/calculate_reconnection_values.txt"):
        n += 1
        if reconnect_proof(norm(user), bytes.fromhex(cd), bytes.fromhex(sd), bytes.fromhex(K)) != bytes.fromhex(exp):
            bad.append("reconnect " + user)
    for user, K, sseed, cseed, exp in lines("srp6_internal/calculate_world_server_proof.txt"):
        n += 1
        p = world_proof(norm(user), le(bytes.fromhex(cseed)), le(bytes.fromhex(sseed)), bytes.fromhex(K))
        if p != bytes.fromhex(exp):
            bad.append("world " + user)
    for user, K, sseed, cseed, exp in lines("encryption/calculate_world_server_proof.txt"):
        n += 1
        p = world_proof(norm(user), le(bytes.fromhex(cseed)), le(bytes.fromhex(sseed)), bytes.fromhex(K)[::-1])
        if p != bytes.fromhex(exp):
            bad.append("world2 " + user)
    for K, plain, exp in lines("encryption/calculate_encrypt_values.txt"):
        n += 1
        if AddCipher(bytes.fromhex(K)).enc(bytes.fromhex(plain)) != bytes.fromhex(exp):
            bad.append("vanilla enc " + K)
    for K, ct, exp in lines("encryption/calculate_decrypt_values.txt"):
        n += 1
        if AddCipher(bytes.fromhex(K)).dec(bytes.fromhex(ct)) != bytes.fromhex(exp):
            bad.append("vanilla dec " + K)
    return n, bad


if __name__ == "__main__":
    n, bad = self_check()
    print("model self-check:", n, "vectors,", len(bad), "mismatches")
    for b in bad[:20]:
        print("  ", b)
