"""C14 — peer-controlled bytes can never crash the server or the client (E1 hostile model peer; E2/E3 in extras)."""
import model as M
from common import Monitor, rng_for
from c01 import rand_cred
from sessions import ll_login
from wsx import Wsx, ExecutorDied

RULE = ("a hostile model peer sweeps every value a remote peer controls while the victim's state is pinned: server side A x M1 "
        "patterns (A in {1,2,N-1,N+1,2^256-1, 1..31 zero bytes at either end, random}; also on an account with verifier 1 and b=1 "
        "where S = A), reconnect data/proof patterns incl. the server's own challenge, world-login proofs/seeds; client side "
        "(built-in group) B in {k*v mod N (S=0), k*v+N, k*v+-1 (S=+-1), 1, 2, N-1, N+1, 2^256-1, zero-byte patterns, random} x salt "
        "patterns, then M2 patterns. Oracle: every call returns ok/err/bool, never a panic; executor death is a violation. "
        "distinct = (side, value class) cells; header byte soup, Miri and memcheck parts are listed in notes")

N_HEX = M.N_LE.hex()


def zero_patterns(rnd):
    out = []
    for z in range(1, 32):
        lo = bytearray(rnd.getrandbits(8) | 1 for _ in range(32))
        for i in range(z):
            lo[i] = 0
        out.append(("low%d" % z, bytes(lo)))
        hi = bytearray(rnd.getrandbits(8) | 1 for _ in range(32))
        for i in range(z):
            hi[31 - i] = 0
        out.append(("high%d" % z, bytes(hi)))
    return out


def fixed_values():
    return [("one", M.to_le(1)), ("two", M.to_le(2)), ("N-1", M.to_le(M.N - 1)), ("N+1", M.to_le(M.N + 1)),
            ("2^256-1", b"\xff" * 32), ("N-2", M.to_le(M.N - 2)), ("2N-2^256?", M.to_le((2 * M.N) % 2 ** 256)),
            ("256^31", M.to_le(256 ** 31)), ("0x88*256^31", M.to_le(0x88 * 256 ** 31))]


PROOFS = [("zero", bytes(20)), ("ones", b"\xff" * 20), ("ascend", bytes(range(20))), ("one_bit", b"\x01" + bytes(19))]


def check(mon, ev, side, cls, replay_cmds):
    mon.ev()
    mon.cell((side, cls.rstrip("0123456789")))
    mon.hist(side, cls.rstrip("0123456789"))
    if ev.status == "panic":
        op = ev.cmd.split("\t", 1)[0]
        mon.violation("c14:panic:%s:%s:%s" % (side, op, cls.rstrip("0123456789")),
                      "%s panicked on peer-controlled input (%s): %s" % (op, cls, ev.f.get("msg", "")[:200]),
                      {"engine": "wsx", "kind": "raw", "commands": list(replay_cmds) + [ev.cmd]})
        return False
    return True


def server_hostile(w, rnd, mon, full):
    user, pw = rand_cred(rnd), rand_cred(rnd)
    w.reset()
    setup = []
    if rnd.random() < 0.5:
        c = "ver_new\tinto=1\tu=%s\tp=%s" % (user.encode().hex(), pw.encode().hex())
        v = w.call("ver_new", into=1, u=user, p=pw)
        setup.append(c)
    else:
        # any stored verifier that is not a multiple of N
        vv = rnd.choice([1, 2, M.N - 1, rnd.getrandbits(256) % M.N or 5, 256 ** rnd.randint(1, 31)])
        v = w.call("ver_db", into=1, u=user, v=M.to_le(vv), salt=bytes(rnd.getrandbits(8) for _ in range(32)))
        setup.append(v.cmd)
    if rnd.random() < 0.3:
        w.script([M.to_le(1)])
        setup.append("rng_script\tchunks=" + M.to_le(1).hex())
    p = w.call("ver_proof", h=1, into=3)
    setup.append(p.cmd)
    if p.status != "ok":
        if p.status == "panic":
            mon.count("own_key_panic_skipped")  # documented panic, own generated key (C04)
        return
    values = fixed_values() + zero_patterns(rnd) + [("random", bytes(rnd.getrandbits(8) for _ in range(32))) for _ in range(6)]
    if not full:
        values = rnd.sample(values, 12)
    for name, A in values:
        for pname, pr in (PROOFS if full else [rnd.choice(PROOFS)]):
            ev = w.call("proof_server", h=3, keep=1, into=5, A=A, M1=pr)
            check(mon, ev, "server:A", name, setup)
            if ev.ok:
                mon.count("garbage_proof_accepted_by_server")  # would be C02's violation; count only
    # a correct login, then hostile reconnects
    w2_setup = []
    sc = {"user": user, "pw": pw, "cuser": user, "cpw": pw, "reimport": False}
    s = ll_login(w, sc)
    if s.srv is not None and s.srv.ok:
        chal = s.chal
        pats = [("zeros", bytes(16), bytes(20)), ("ones", b"\xff" * 16, b"\xff" * 20), ("own_challenge", chal, bytes(20)),
                ("own_challenge_proof_K", chal, s.Ks[:20]), ("random", bytes(rnd.getrandbits(8) for _ in range(16)), bytes(rnd.getrandbits(8) for _ in range(20)))]
        for name, d, pr in pats:
            ev = w.call("srv_reconnect", h=5, data=d, proof=pr)
            check(mon, ev, "server:reconnect", name, w2_setup)
        # a long run of consecutive failed attempts (anyone who knows the username can send these)
        for i in range(300 if full else 0):
            ev = w.call("srv_reconnect", h=5, data=bytes([i & 0xFF]) * 16, proof=bytes([(i * 7) & 0xFF]) * 20)
            if not check(mon, ev, "server:reconnect", "consecutive_failures", w2_setup + ["# after %d consecutive failed attempts" % i]):
                break
        ev = w.call("clt_reconnect", h=6, chal=rnd.choice([bytes(16), b"\xff" * 16, chal]))
        check(mon, ev, "client:reconnect_challenge", "pattern", w2_setup)


def client_hostile(w, rnd, mon, full):
    user, pw = rand_cred(rnd), rand_cred(rnd)
    un, pn = M.norm(user), M.norm(pw)
    salts = [("random", bytes(rnd.getrandbits(8) for _ in range(32))), ("zero", bytes(32)), ("ones", b"\xff" * 32),
             ("low_zero", bytes(16) + b"\x55" * 16), ("high_zero", b"\x55" * 16 + bytes(16))]
    for sname, salt in (salts if full else rnd.sample(salts, 2)):
        v = M.calc_v(un, pn, salt)
        kv = 3 * v % M.N
        bvals = [("kv_mod_N(S=0)", kv), ("kv+1(S=1)", (kv + 1) % M.N), ("kv-1(S=+-1)", (kv - 1) % M.N), ("kv+2", (kv + 2) % M.N)]
        if kv + M.N < 2 ** 256:
            bvals.append(("kv+N(S=0)", kv + M.N))
        if kv + 1 + M.N < 2 ** 256:
            bvals.append(("kv+1+N", kv + 1 + M.N))
        bvals = [(n, M.to_le(x)) for n, x in bvals if x not in (0, M.N)]
        bvals += fixed_values() + zero_patterns(rnd) + [("random", bytes(rnd.getrandbits(8) for _ in range(32))) for _ in range(4)]
        if not full:
            bvals = bvals[:6] + rnd.sample(bvals[6:], 8)
        for name, B in bvals:
            w.reset()
            setup = []
            if rnd.random() < 0.3:
                a = rnd.choice([M.to_le(1), M.to_le(2), b"\xff" * 32, M.to_le(0)])
                w.script([a])
                setup.append("rng_script\tchunks=" + a.hex())
            if rnd.random() < 0.15 and getattr(w, "b", None) is None:
                # a sibling session towards a realm that announces a nonsense group (modulus 0 or 1) fails first - whatever that
                # call does is not judged (foreign groups are outside this property) - and must leave nothing behind
                sib = w.call("cli_new", into=14, u=user, p=pw, g=7, N=M.to_le(rnd.randint(0, 1)), B=M.to_le(5), salt=salt)
                setup.append(sib.cmd)
                mon.count("contained_failing_sibling_sessions")
            ev = w.call("cli_new", into=4, u=user, p=pw, g=7, N=N_HEX, B=B, salt=salt)
            if ev.status == "err":
                mon.count("hostile_B_refused_as_public_key")
                mon.ev()
                continue
            if not check(mon, ev, "client:B", name, setup):
                continue
            setup.append(ev.cmd)
            m2s = [("zero", bytes(20)), ("ones", b"\xff" * 20), ("is_M1", ev.b("M1")), ("random", bytes(rnd.getrandbits(8) for _ in range(20)))]
            for mname, m2 in (m2s if full else [rnd.choice(m2s)]):
                e2 = w.call("cli_verify", h=4, keep=1, into=6, M2=m2)
                check(mon, e2, "client:M2", mname, setup)
        mon.hist("client:salt_patterns", sname)


def world_hostile(w, rnd, mon):
    for x in ("v", "t", "w"):
        w.reset()
        s = w.call("seed_new", x=x, into=2)
        setup = [s.cmd]
        for _ in range(6):
            K = rnd.choice([bytes(40), b"\xff" * 40, bytes(rnd.getrandbits(8) for _ in range(40))])
            pr = rnd.choice([bytes(20), b"\xff" * 20, bytes(rnd.getrandbits(8) for _ in range(20))])
            cs = rnd.choice([0, 0xFFFFFFFF, int(s.f["seed"]), rnd.getrandbits(32)])
            ev = w.call("seed_server", h=2, into=4, u=rand_cred(rnd), K=K, proof=pr, cseed=cs)
            check(mon, ev, "world:" + x, "proof_seed_patterns", setup)


def worker(idx, nworkers, tier, seed, extra):
    mon = Monitor()
    rnd = rng_for(seed, "c14", idx)
    n = {"quick": 6, "thorough": 120}[tier]
    w = Wsx()
    try:
        for i in range(n):
            full = (i == 0)
            for fn in (server_hostile, client_hostile):
                try:
                    fn(w, rnd, mon, full)
                except ExecutorDied as e:
                    mon.violation("c14:executor_died", "executor process died (abort/signal) rc=%s" % e.rc,
                                  {"engine": "wsx", "kind": "raw", "commands": e.last_cmds})
                    w = Wsx()
            world_hostile(w, rnd, mon)
    finally:
        w.close()
    # the first use of the login code in the life of a process, made on 16 threads at the same moment (a server that was
    # just restarted): a fresh executor per trial, the burst is its very first command
    for trial in range({"quick": 3, "thorough": 40}[tier]):
        mode = "server" if (idx + trial) % 2 == 0 else "client"
        fw = Wsx()
        try:
            ev = fw.call("mt_first_use", threads=16, mode=mode)
            mon.ev(17)
            mon.count("first_use_bursts_in_fresh_processes")
            rp = {"engine": "wsx", "kind": "raw", "commands": [ev.cmd]}
            if ev.status != "ok":
                mon.violation("c14:panic:first_use_burst:" + mode, "the burst itself failed: %s" % str(ev.f)[:300], rp)
                continue
            res = ev.f.get("results", "").split(",")
            bad = [r for r in res if r.startswith("panic")]
            if bad:
                mon.violation("c14:panic:first_use_under_contention:" + mode,
                              "%d of %d %s-side calls that were the first of their process and arrived at the same moment panicked: %s" % (
                                  len(bad), len(res), mode, bad[0][:200]), rp)
            elif not ev.f.get("after", "").startswith("ok"):
                mon.violation("c14:first_use:login_afterwards:" + mode, "the sequential honest login after the burst: %s" % ev.f.get("after", "")[:200], rp)
            else:
                mon.cell(("first_use_burst", mode))
        except ExecutorDied as e:
            mon.violation("c14:executor_died", "executor process died in a first-use burst rc=%s" % e.rc, {"engine": "wsx", "kind": "raw", "commands": e.last_cmds})
        finally:
            fw.close()
    return mon


def run(tier, seed):
    from common import run_sharded
    import runner
    mon = run_sharded(worker, tier, seed)
    # E2: header byte soup through every header entry point
    m2, _ = runner.run_wsm("C14", tier, seed, timeout=3600)
    mon.merge(m2)
    if tier == "thorough":
        import c14_e3
        c14_e3.extra(mon, tier, seed)
    return mon


