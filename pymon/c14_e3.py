"""C14/C19 E3 part (thorough tier): the hostile workload under Miri (pure-Rust build) and valgrind memcheck (GMP build)."""
import os
import re
import subprocess
import time

import c14
import miri
import model as M
from common import Monitor, rng_for, ROOT
from wsx import Wsx, WSX_RUG

LOGS = os.path.join(ROOT, "evidence", "logs")


def record_hostile_script(seed, n=2):
    """Run the hostile workload once on the normal executor and keep the command stream."""
    rnd = rng_for(seed, "c14e3")
    w = Wsx(record=True)
    sink = Monitor()
    try:
        for i in range(n):
            c14.server_hostile(w, rnd, sink, i == 0)
            c14.client_hostile(w, rnd, sink, i == 0)
    finally:
        w.close()
    return [e["cmd"] for e in w.record if e["cmd"]]


def memcheck(mon, seed):
    os.makedirs(LOGS, exist_ok=True)
    cmds = record_hostile_script(seed)
    script = os.path.join(LOGS, "c14_hostile_script.txt")
    with open(script, "w") as f:
        f.write("\n".join(cmds) + "\nquit\n")
    vlog = os.path.join(LOGS, "c14_memcheck.log")
    t0 = time.time()
    try:
        with open(script) as fin:
            r = subprocess.run(["valgrind", "--tool=memcheck", "--error-exitcode=99", "--log-file=" + vlog, "--num-callers=30", WSX_RUG],
                               stdin=fin, stdout=subprocess.PIPE, stderr=subprocess.PIPE, timeout=3600)
    except subprocess.TimeoutExpired:
        mon.inconc("valgrind watchdog fired; memcheck part inconclusive")
        return
    events = r.stdout.decode(errors="replace").splitlines()
    # one event per command; the contained failing sibling sessions (cli_new into=14 towards a realm announcing modulus 0 or 1)
    # are not judged: foreign groups are outside the property and that call panics on the reference tree as well
    panics = [e for c, e in zip(cmds, events) if e.startswith("panic") and not (c.startswith("cli_new\tinto=14\t"))]
    mon.count("memcheck_sibling_calls_not_judged", sum(1 for c in cmds if c.startswith("cli_new\tinto=14\t")))
    mon.count("memcheck_calls_executed", len(events))
    mon.ev(len(events))
    mon.note("valgrind memcheck on the GMP build: %d commands of the hostile script executed in %.0fs, exit status %d" % (len(events), time.time() - t0, r.returncode))
    for p in panics[:3]:
        mon.violation("c14:panic:under_memcheck_gmp", "GMP build panicked on peer-controlled input: %s" % p[:300],
                      {"engine": "wsx2", "kind": "raw", "commands": cmds[:200]})
    log = open(vlog).read() if os.path.exists(vlog) else ""
    m = re.search(r"ERROR SUMMARY: (\d+) errors", log)
    nerr = int(m.group(1)) if m else -1
    mon.count("memcheck_error_reports", max(nerr, 0))
    if nerr > 0:
        blocks = re.split(r"\n==\d+== \n", log)
        seen = set()
        for b in blocks:
            if "wow_srp" in b and ("Invalid" in b or "uninitialised" in b or "Mismatched" in b):
                key = re.sub(r"0x[0-9A-Fa-f]+", "", b)[:400]
                if key in seen:
                    continue
                seen.add(key)
                mon.violation("c14:memcheck_report_through_wow_srp", "valgrind memcheck report with wow_srp on the stack: %s" % b[:600].replace("\n", " / "),
                              {"engine": "valgrind", "script": script})
        if not seen:
            mon.note("memcheck reported %d errors none of which passes through wow_srp (recorded as information): see evidence/logs" % nerr)
    elif nerr < 0:
        mon.inconc("could not read valgrind's error summary")
    mon.cell(("memcheck", len(events) > 0))


def extra(mon, tier, seed):
    miri.run_wsm_under_miri("C14", (0, 8), seed, mon, "header byte soup through every decrypting entry point, 8 seeds")
    miri_wsx_hostile(mon, seed)
    import asan
    asan.run("C14", seed, mon)
    if os.path.exists(WSX_RUG):
        memcheck(mon, seed)
    else:
        mon.inconc("GMP executor not built; memcheck part not run")


def miri_wsx_hostile(mon, seed):
    """One hostile built-in-group exchange per interpreter process (an SRP exchange costs ~26 s under Miri)."""
    os.makedirs(LOGS, exist_ok=True)
    rnd = rng_for(seed, "c14miri")
    user, pw = "MIRI", "hostile"
    salt = bytes(32)
    v = M.calc_v(M.norm(user), M.norm(pw), salt)
    kv = 3 * v % M.N
    cases = [("S0", kv), ("S1", (kv + 1) % M.N), ("Sm1", (kv - 1) % M.N), ("low31", 0x55 * 256 ** 31), ("one", 1),
             ("N+1", M.N + 1), ("ff", 2 ** 256 - 1), ("rand", rnd.getrandbits(256))]
    procs = []
    env = dict(os.environ, CARGO_NET_OFFLINE="true", MIRIFLAGS="-Zmiri-disable-isolation")
    # build once
    subprocess.run(["cargo", "+nightly", "miri", "run", "--offline", "-q", "-p", "wsx"], cwd=os.path.join(ROOT, "harness"), env=env,
                   input=b"quit\n", stdout=subprocess.PIPE, stderr=subprocess.PIPE)
    for name, B in cases:
        script = "cli_new\tinto=4\tu=%s\tp=%s\tg=7\tN=%s\tB=%s\tsalt=%s\ncli_verify\th=4\tinto=6\tM2=%s\nquit\n" % (
            user.encode().hex(), pw.encode().hex(), M.N_LE.hex(), M.to_le(B).hex(), salt.hex(), bytes(20).hex())
        p = subprocess.Popen(["cargo", "+nightly", "miri", "run", "--offline", "-q", "-p", "wsx"], cwd=os.path.join(ROOT, "harness"), env=env,
                             stdin=subprocess.PIPE, stdout=subprocess.PIPE, stderr=subprocess.PIPE)
        p.stdin.write(script.encode())
        p.stdin.close()
        procs.append((name, p, script))
    for name, p, script in procs:
        try:
            out = p.stdout.read().decode(errors="replace")
            err = p.stderr.read().decode(errors="replace")
            p.wait(timeout=3600)
        except Exception as e:
            mon.inconc("Miri hostile exchange %s did not finish: %s" % (name, e))
            continue
        mon.ev()
        mon.count("miri_hostile_exchanges")
        if "Undefined Behavior" in err:
            mon.violation("c14:miri_report:client:" + name, "Miri reported UB in a hostile exchange: %s" % re.search(r"error: .*", err).group(0)[:300],
                          {"engine": "miri", "script": script})
        for line in out.splitlines():
            if line.startswith("panic"):
                mon.violation("c14:panic:client:under_miri:" + name, "client panicked under Miri: %s" % line[:300], {"engine": "miri", "script": script})
        mon.cell(("miri_hostile", name))
