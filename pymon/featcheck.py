"""Reduced feature sets of wow_srp: the same public functions on builds that compile less of the crate (a login-server-only
build, a TBC-only and a Wrath-only world server). One build per feature set in its own target directory under
harness-feat/; the binary runs smoke-level versions of the monitors' oracles and prints VIOL lines."""
import os
import subprocess
import time

from common import ROOT

DIR = os.path.join(ROOT, "harness-feat")
COMBOS = {"srp": [], "tbc": ["--features", "tbc"], "wrath": ["--features", "wrath"]}
FOR_PROP = {"C02": "srp", "C05": "srp", "C08": "tbc", "C09": "wrath"}


def build(combo):
    env = dict(os.environ, CARGO_NET_OFFLINE="true")
    r = subprocess.run(["cargo", "build", "--release", "--offline", "--target-dir", "target-" + combo] + COMBOS[combo], cwd=DIR, env=env,
                       stdout=subprocess.PIPE, stderr=subprocess.STDOUT)
    return r.returncode, r.stdout.decode(errors="replace")


def run_binary(combo, seed):
    exe = os.path.join(DIR, "target-" + combo, "release", "wsf")
    r = subprocess.run([exe, str(seed)], stdout=subprocess.PIPE, stderr=subprocess.PIPE, timeout=900)
    return r.returncode, r.stdout.decode(errors="replace").splitlines()


def run(mon, prop, seed):
    combo = FOR_PROP.get(prop)
    if combo is None:
        return
    t0 = time.time()
    rc, out = build(combo)
    if rc != 0:
        # a feature set that no longer compiles is not this property's verdict
        mon.inconc("the reduced feature set '%s' of the crate does not build: %s" % (combo, out[-300:].replace("\n", " / ")))
        return
    try:
        rc, lines = run_binary(combo, seed)
    except subprocess.TimeoutExpired:
        mon.inconc("feature-set run '%s' did not finish" % combo)
        return
    n = 0
    for l in lines:
        if l.startswith("EVAL "):
            n = int(l.split()[1])
        elif l.startswith("VIOL "):
            sig, _, what = l[5:].partition("\t")
            if combo != "srp" and not sig.startswith(combo):
                continue  # the login sweeps of the other feature sets belong to C02
            mon.violation("%s:feature_set_%s:%s" % (prop.lower(), combo, sig), "built with the reduced feature set '%s': %s" % (combo, what),
                          {"engine": "wsf", "combo": combo, "seed": seed})
    if rc != 0 and n == 0:
        mon.inconc("feature-set binary '%s' ended with status %d" % (combo, rc))
        return
    mon.ev(n)
    mon.count("evaluations_on_reduced_feature_set_" + combo, n)
    mon.cell(("feature_set", combo))
    mon.note("reduced feature set '%s': built and run in %.0fs" % (combo, time.time() - t0))
