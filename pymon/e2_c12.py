"""C12 extras: the two halves on two threads under Miri's scheduler and data-race detector."""
import miri


def extra(mon, tier, seed):
    n = 4 if tier == "quick" else 64
    miri.run_wsm_under_miri("C12", (0, n), seed, mon, "histories + halves on two threads, %d scheduler seeds" % n)
