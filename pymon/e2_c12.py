"""C12 extras: the two halves on two threads under Miri's scheduler and data-race detector."""
import miri


def extra(mon, tier, seed):
    if tier == "quick":
        miri.run_wsm_under_miri("C12", (0, 4), seed, mon, "histories + halves on two threads, 4 scheduler seeds")
    else:
        miri.run_multi("C12", [seed * 1000 + i for i in range(8)], 8, mon, "histories + halves on two threads")
