"""Verdict / evidence plumbing shared by all checks (DESIGN.md section 2)."""
import collections
import json
import multiprocessing
import os
import random
import time
import traceback
from wsx import CredentialRefused

ROOT = os.path.normpath(os.path.join(os.path.dirname(os.path.abspath(__file__)), ".."))


class Monitor:
    """Counters a monitor maintains while it watches executions."""

    def __init__(self):
        self.evals = 0
        self.cells = set()
        self.counters = collections.Counter()
        self.hists = collections.defaultdict(collections.Counter)
        self.samples = []
        self.violations = []
        self.inconclusive = []
        self.notes = []
        self.exhaustive = None
        self.rule = None
        self.extra_distinct = 0

    # --- recording ------------------------------------------------------
    def ev(self, n=1):
        self.evals += n

    def cell(self, key):
        self.cells.add(key)

    def count(self, name, k=1):
        self.counters[name] += k

    def hist(self, name, bucket, k=1):
        self.hists[name][bucket] += k

    def sample(self, obj, cap=6):
        if len(self.samples) < cap:
            self.samples.append(obj)

    def violation(self, sig, what, replay):
        """sig: stable signature (oracle + input class); replay: json-able scenario."""
        for v in self.violations:
            if v["sig"] == sig:
                v["n"] += 1
                return
        self.violations.append({"sig": sig, "what": what, "replay": replay, "n": 1})

    def inconc(self, msg):
        if msg not in self.inconclusive:
            self.inconclusive.append(msg)

    def note(self, msg):
        if msg not in self.notes:
            self.notes.append(msg)

    # --- merging worker results ------------------------------------------
    def merge(self, o):
        self.evals += o.evals
        self.cells |= o.cells
        self.extra_distinct += o.extra_distinct
        self.counters.update(o.counters)
        for k, c in o.hists.items():
            self.hists[k].update(c)
        for s in o.samples:
            self.sample(s)
        for v in o.violations:
            found = False
            for w in self.violations:
                if w["sig"] == v["sig"]:
                    w["n"] += v["n"]
                    found = True
            if not found:
                self.violations.append(v)
        for m in o.inconclusive:
            self.inconc(m)
        for m in o.notes:
            self.note(m)


def _worker(args):
    fn, idx, nworkers, tier, seed, extra = args
    try:
        return fn(idx, nworkers, tier, seed, extra)
    except CredentialRefused as e:
        # not a harness error: the library refused a credential that is valid by the rule
        m = Monitor()
        prop = (getattr(fn, "__module__", "") or "e1").split(".")[-1]
        try:
            text = bytes.fromhex(e.f.get("text", "")).decode("ascii", "replace")
        except ValueError:
            text = "?"
        m.ev()
        m.violation("%s:valid_credential_refused" % prop, "a constructor or conversion of the credential type refused the valid string %r (%s)" % (text, e.f.get("msg")),
                    {"engine": "wsx", "kind": "raw", "commands": [e.cmd]})
        return m
    except Exception as e:  # harness error in a worker: inconclusive, never a violation
        m = Monitor()
        m.inconc("worker %d harness error: %s: %s | %s" % (idx, type(e).__name__, e,
                                                          traceback.format_exc().replace("\n", " / ")[-600:]))
        m.counters["harness_errors"] += 1
        return m


def run_sharded(fn, tier, seed, nworkers=16, extra=None):
    """fn(idx, nworkers, tier, seed, extra) -> Monitor, on nworkers processes."""
    ctx = multiprocessing.get_context("fork")
    with ctx.Pool(nworkers) as pool:
        parts = pool.map(_worker, [(fn, i, nworkers, tier, seed, extra) for i in range(nworkers)], chunksize=1)
    total = Monitor()
    for p in parts:
        total.merge(p)
    return total


def load_name_collisions():
    """Pairs of valid credential strings that collide under common 32-bit string hashes (inputs only; using any two
    different names is sound, the collisions only make partial cache tags inside the library visible)."""
    p = os.path.join(ROOT, "corpus", "name_collisions.json")
    out = []
    try:
        for e in json.load(open(p)):
            a, b = e["a"], e["b"]
            if a != b and 1 <= len(a) <= 16 and 1 <= len(b) <= 16 and all(0x20 <= ord(c) <= 0x7E for c in a + b):
                out.append((e["hash"], a, b))
    except Exception:
        pass
    return out


def rng_for(seed, *path):
    return random.Random("verif:%s:%s" % (seed, ":".join(str(p) for p in path)))


# ---------------------------------------------------------------------------
# Known findings

def load_known():
    """Lines `known: property=<id> sig=<signature> <free text>` suppress exactly
    that signature. `fixed:` lines are history and suppress nothing."""
    known = {}
    p = os.path.join(ROOT, "KNOWN_FINDINGS.txt")
    if not os.path.exists(p):
        return known
    for line in open(p):
        line = line.strip()
        if not line.startswith("known:"):
            continue
        parts = line[len("known:"):].split()
        d = {}
        rest = []
        for t in parts:
            if "=" in t and t.split("=", 1)[0] in ("property", "sig") and t.split("=", 1)[0] not in d:
                k, v = t.split("=", 1)
                d[k] = v
            else:
                rest.append(t)
        if "property" in d and "sig" in d:
            known[(d["property"], d["sig"])] = " ".join(rest)
    return known


def finish(prop, level, tier, seed, mon, t0, rule, assumptions, extra_cov=None, design_ref=None):
    """Write evidence, replay files, print verdict lines, return exit code."""
    known = load_known()
    os.makedirs(os.path.join(ROOT, "evidence"), exist_ok=True)
    os.makedirs(os.path.join(ROOT, "replays"), exist_ok=True)
    new = []
    for v in mon.violations:
        key = (prop, v["sig"])
        if key in known:
            print("KNOWN-FINDING: property=%s %s (%s; seen %d times this run)" % (prop, known[key], v["sig"], v["n"]))
        else:
            new.append(v)
    for i, v in enumerate(new):
        path = os.path.join(ROOT, "replays", "%s-%s-%d.json" % (prop, tier, i))
        with open(path, "w") as f:
            json.dump({"property": prop, "sig": v["sig"], "what": v["what"], "seed": seed, "tier": tier,
                       "replay": v["replay"]}, f, indent=1, default=_js)
        print("VIOLATION property=%s replay=%s" % (prop, path))
        print("  what: %s" % v["what"])
        print("  sig:  %s (seen %d times)" % (v["sig"], v["n"]))
    for m in mon.inconclusive:
        print("INCONCLUSIVE: %s" % m)
    cov = {
        "evaluations": int(mon.evals),
        "distinct_nontrivial": int(len(mon.cells) + mon.extra_distinct),
        "rule": rule,
        "samples": mon.samples if mon.samples else [],
        "counters": {k: int(v) for k, v in sorted(mon.counters.items())},
        "histograms": {k: {str(b): int(n) for b, n in sorted(c.items(), key=lambda kv: str(kv[0]))}
                       for k, c in sorted(mon.hists.items())},
        "inconclusive": mon.inconclusive,
        "notes": mon.notes,
        "known_findings_seen": [v["sig"] for v in mon.violations if (prop, v["sig"]) in known],
    }
    if mon.exhaustive is not None:
        cov["exhaustive"] = bool(mon.exhaustive)
    if extra_cov:
        cov.update(extra_cov)
    ev = {
        "property_id": prop,
        "tier": tier,
        "seed": int(seed),
        "level": level,
        "coverage": cov,
        "assumptions": assumptions,
        "wall_s": round(time.time() - t0, 2),
        "violations": len(new),
    }
    with open(os.path.join(ROOT, "evidence", "%s.json" % prop), "w") as f:
        json.dump(ev, f, indent=1, default=_js)
    print("%s tier=%s seed=%s: %d evaluations, %d distinct non-trivial cases, %d new violations, %d inconclusive items, %.1fs"
          % (prop, tier, seed, mon.evals, len(mon.cells) + mon.extra_distinct, len(new), len(mon.inconclusive), time.time() - t0))
    for k, v in sorted(mon.counters.items()):
        print("  %-40s %d" % (k, v))
    if new:
        return 1
    if mon.evals == 0:
        print("INCONCLUSIVE: nothing was observed for %s" % prop)
        return 2
    return 0


def _js(o):
    if isinstance(o, (bytes, bytearray)):
        return bytes(o).hex()
    if isinstance(o, set):
        return sorted(o)
    return str(o)
