"""C19 — both big-integer back ends produce identical results (E1 differential: wsx vs wsx-rug)."""
import os

import model as M
from common import Monitor, rng_for
from wsx import Wsx, WSX, WSX_RUG, ExecutorDied, Event
import c01
import c02
import c03
import c14
from sessions import ll_login

RULE = ("the same command stream with the same injected random draws is executed by two executors built from the same source, one "
        "against num-bigint and one against rug/GMP; every event (status, returned bytes, error kinds, accept/reject, panic-or-not, "
        "draws consumed) must be identical. Workloads: C01 logins incl. corpus and boundary keys, C02 perturbation sweeps, C03 model "
        "peers incl. all z steering, every generator and announced primes (tiny ones and 2), C04 own-key paths and family samples, "
        "C14 hostile values. distinct = (operation, status) cells x workload kinds")

NODRAW = {"rng_script", "rng_clear", "reset", "drop", "clone", "ping", "ver_get", "proof_get", "cli_get", "srv_get", "clt_get",
          "seed_get", "pk", "hc_enc", "hc_dec", "ver_db", "cli_verify"}


class DualWsx:
    """Drives two executors in lock-step and compares every event. Quacks like Wsx."""

    def __init__(self, mon, rnd, kind="?"):
        self.a = Wsx(WSX)
        self.b = Wsx(WSX_RUG)
        self.mon = mon
        self.rnd = rnd
        self.kind = kind
        self.queue = []
        self.recent = []
        self.next_id = 1
        self.calls = 0
        self.context = []

    def new_id(self):
        i = self.next_id
        self.next_id += 1
        return i

    def _one(self, line):
        op = line.split("\t", 1)[0]
        filler = None
        if op not in NODRAW:
            # identical randomness on both sides: enough scripted chunks for every draw of this call
            filler = ",".join(bytes(self.rnd.getrandbits(8) for _ in range(32)).hex() for _ in range(4 if op != "census" else 0))
            if op in ("ver_new", "ver_proof", "cli_new"):
                pass
        lines = []
        if filler:
            lines.append("rng_script\tchunks=" + filler)
        lines.append(line)
        if filler:
            lines.append("rng_clear")
        evs = []
        for w in (self.a, self.b):
            try:
                w.send_lines(lines)
                got = [w.read_event(l) for l in lines]
            except ExecutorDied as e:
                self.mon.violation("c19:executor_died:%s" % ("num" if w is self.a else "rug"),
                                   "%s executor died on %s" % ("num-bigint" if w is self.a else "rug", op),
                                   {"engine": "wsx2", "kind": "raw", "commands": self.context[-12:] + lines})
                raise
            evs.append(got[1] if filler else got[0])
        ea, eb = evs
        self.context.append(lines[0] if len(lines) == 1 else lines[0])
        if len(lines) > 1:
            self.context.append(line)
        if len(self.context) > 40:
            del self.context[:20]
        self.calls += 1
        self.mon.ev()
        self.mon.cell((self.kind, op, ea.status))
        fa = {k: v for k, v in ea.f.items() if k != "msg"}
        fb = {k: v for k, v in eb.f.items() if k != "msg"}
        if op == "noise":
            # calls of other modules draw an unbounded amount of real randomness (cards, seeds): only panic-or-not is compared
            if (ea.status == "panic") != (eb.status == "panic"):
                self.mon.violation("c19:noise:%s_vs_%s" % (ea.status, eb.status), "back ends disagree on whether an other-module call panics",
                                   {"engine": "wsx2", "kind": "raw", "commands": self.context[-6:]})
        elif ea.status == "bad" or eb.status == "bad":
            # follow-on of an earlier divergence (a handle or reference that exists on one side only)
            self.mon.count("events_after_a_divergence_not_compared")
        elif ea.status != eb.status or fa != fb or ea.rng != eb.rng:
            what = "num-bigint: %s %s | rug: %s %s" % (ea.status, _short(ea.f), eb.status, _short(eb.f))
            cls = ""
            if eb.status == "panic":
                msg = eb.f.get("msg", "")
                cls = ":" + ("exponent_not_positive" if "exponent" in msg else ("modulo_not_odd" if "odd" in msg or "modulo" in msg else "other_panic"))
            elif ea.status == "panic":
                cls = ":num_panics"
            self.mon.violation("c19:%s:%s_vs_%s%s" % (op, ea.status, eb.status, cls),
                               "back ends disagree on %s (%s): %s" % (op, self.kind, what),
                               {"engine": "wsx2", "kind": "raw", "commands": self.context[-14:]})
        return ea

    # --- Wsx interface used by the session drivers
    def send_lines(self, lines):
        for l in lines:
            self.queue.append((l, self._one(l)))

    def read_event(self, cmd=None):
        l, ev = self.queue.pop(0)
        return ev

    def call(self, op, **kw):
        from wsx import fmt
        line = fmt(op, **kw)
        ev = self._one(line)
        if ev.status == "bad":
            raise RuntimeError("driver error: %s -> %s" % (line, ev.f.get("msg")))
        return ev

    def script(self, chunks):
        if chunks:
            self.call("rng_script", chunks=",".join(c.hex() if isinstance(c, (bytes, bytearray)) else c for c in chunks))

    def reset(self):
        return self.call("reset")

    def clear(self):
        return int(self.call("rng_clear").f["pending"])

    def close(self):
        self.a.close()
        self.b.close()


def _short(f):
    return {k: (v if len(v) <= 24 else v[:20] + "..") for k, v in f.items()}


def worker(idx, nworkers, tier, seed, extra):
    mon = Monitor()
    sink = Monitor()  # the per-property oracles run too, but their verdicts belong to C01..C14
    rnd = rng_for(seed, "c19", idx)
    if not os.path.exists(WSX_RUG):
        mon.inconc("the GMP executor is not built")
        return mon
    scale = {"quick": 1, "thorough": 100}[tier]
    if not randomness_alignable():
        # the two executors cannot be made to draw the same values (the library takes its randomness from a source the
        # interposed generator does not see, or maps draws to keys differently): an event-by-event comparison would only
        # compare noise. Fall back to: each back end against the independent model (agreement with the model implies agreement).
        mon.inconc("randomness of the two executors cannot be aligned by injection; differential run replaced by model-peer sessions on "
                   "the GMP executor (C03/C14 workloads), randomness-dependent events are not compared")
        return fallback_rug_vs_model(mon, rnd, idx, nworkers, scale)
    w = DualWsx(mon, rnd)
    try:
        # process history: three of four executors see a client session with another announced modulus before
        # anything else (state remembered from the first modulus would show up in the later built-in logins)
        first = {1: 2, 2: 3, 3: 257}.get(idx % 4)
        if first:
            w.kind = "first_session_other_modulus"
            for g in (3, 7):
                _raw_client(w, {"user": "First", "pw": "session", "cuser": "First", "cpw": "session", "salt": bytes(32).hex(), "g": g,
                                "n": M.to_le(first).hex(), "b": M.to_le(5).hex(), "a": c03.rb(rnd, 32).hex(), "Bmode": "honest"})
        # ---- C01 logins: corpus classes, boundary keys (incl. 0), random
        w.kind = "c01"
        for i, e in enumerate(c01.load_corpus()):
            if i % nworkers != idx:
                continue
            sc = {"user": e["user"], "pw": e["pw"], "cuser": e["user"], "cpw": e["pw"].lower(), "salt": e["salt"], "a": e["a"], "b": e["b"],
                  "reimport": i % 2 == 0}
            c01.judge(ll_login(w, sc), sink, sc)
        for i in range(60 * scale):
            r = rnd.random()
            sc = c01.scenario(rnd, "bkeys" if r < 0.4 else ("bsalt" if r < 0.5 else "plain"))
            c01.judge(ll_login(w, sc), sink, sc)
            mon.count("c01_sessions")
        # every ordered pair of boundary private keys (sharded)
        w.kind = "c01_boundary_keys"
        pairs = [(a, b) for a in c01.BOUNDARY_KEYS for b in c01.BOUNDARY_KEYS]
        for i, (a, b) in enumerate(pairs):
            if i % nworkers != idx:
                continue
            sc = {"user": "Bound", "pw": "ary", "cuser": "bound", "cpw": "ARY", "a": a.hex(), "b": b.hex(), "reimport": False}
            ll_login(w, sc)
            mon.count("boundary_key_pairs")
        # ---- C02 sampled perturbation sweeps
        w.kind = "c02"
        for i in range(4 * scale):
            c02.run_session(w, c02.make_scenario(rnd, False), sink)
            mon.count("c02_sessions")
        if idx == 0:
            c02.run_session(w, c02.make_scenario(rnd, True), sink)
        # ---- C03: steering all z on both sides, generators, announced primes incl. tiny and 2
        w.kind = "c03_server_z"
        for z in range(1, 32):
            if z % nworkers != idx:
                continue
            S = c03.secret_with_z(rnd, z)
            c03.lm_session(w, {"user": c01.rand_cred(rnd), "pw": "x", "salt": c03.rb(rnd, 32).hex(), "b": M.to_le(1).hex(), "vmode": "v1",
                               "A": M.to_le(S).hex()}, sink)
        w.kind = "c03_client_z"
        for z in range(1, 32):
            if (z + 5) % nworkers != idx:
                continue
            for odd in (True, False):
                sc = c03.steer_client_z(rnd, z, odd)
                if sc:
                    c03.ml_session(w, sc, sink)
        w.kind = "c03_generators"
        for g in range(2, 256):
            if g % nworkers != idx:
                continue
            user, pw = c01.rand_cred(rnd), c01.rand_cred(rnd)
            c03.ml_session(w, {"user": user, "pw": pw, "cuser": user, "cpw": pw, "salt": c03.rb(rnd, 32).hex(), "g": g, "n": c03.N_HEX,
                               "b": c03.rb(rnd, 32).hex(), "a": c03.rb(rnd, 32).hex(), "Bmode": "honest"}, sink)
        w.kind = "c03_announced_primes"
        tiny = [2, 3, 5, 7, 11, 13, 251, 257, 65521, 65537]
        for nbytes in range(1, 33):
            if nbytes % nworkers != idx:
                continue
            primes = [c03.random_prime(rnd, 8 * nbytes if nbytes > 1 else rnd.randint(3, 8)) for _ in range(2 * scale)]
            if nbytes <= 3:
                primes += [p for p in tiny if (p.bit_length() + 7) // 8 == nbytes]
            for p in primes:
                for g in [7, rnd.randint(2, 255), 2]:
                    user, pw = c01.rand_cred(rnd), c01.rand_cred(rnd)
                    for amode in ("rand", "zero", "one"):
                        a = {"rand": c03.rb(rnd, 32), "zero": bytes(32), "one": M.to_le(1)}[amode]
                        sc = {"user": user, "pw": pw, "cuser": user, "cpw": pw, "salt": c03.rb(rnd, 32).hex(), "g": g, "n": M.to_le(p).hex(),
                              "b": c03.rb(rnd, 32).hex(), "a": a.hex(), "Bmode": rnd.choice(["honest", "unreduced"])}
                        # drive the library call even when the model says the exchange is degenerate: both back ends must agree there too
                        _raw_client(w, sc)
                        mon.count("announced_group_calls")
        # ---- announced moduli that are not prime (legal inputs of the client API: whatever the server announces)
        w.kind = "announced_composite_moduli"
        comps = [4, 6, 8, 9, 10, 15, 16, 21, 255, 256, 65535, 65536, 2 ** 64, 2 ** 255, 3 * 2 ** 200, M.N - 1, M.N + 1,
                 rnd.getrandbits(256) | (1 << 255), (rnd.getrandbits(128) | 1) * (rnd.getrandbits(120) | 1), rnd.getrandbits(64) * 2]
        for ci, n_ in enumerate(comps):
            if ci % nworkers != idx % nworkers and (ci + 7) % nworkers != idx:
                continue
            for g in (2, 3, 5, 7, 10):
                for amode in ("rand", "rand", "one", "zero"):
                    a = {"rand": c03.rb(rnd, 32), "zero": bytes(32), "one": M.to_le(1)}[amode]
                    user, pw = c01.rand_cred(rnd), c01.rand_cred(rnd)
                    _raw_client(w, {"user": user, "pw": pw, "cuser": user, "cpw": pw, "salt": c03.rb(rnd, 32).hex(), "g": g,
                                    "n": M.to_le(n_).hex(), "b": c03.rb(rnd, 32).hex(), "a": a.hex(), "Bmode": "honest"})
                    mon.count("composite_modulus_calls")
        # ---- tiny composite moduli, every server key from 1 to a little above twice the modulus, odd and even private keys:
        #      negative bases that share factors with the modulus (powers that vanish modulo N), bases of -1, 0, -N ...
        w.kind = "tiny_moduli_all_server_keys"
        tiny_n = [4, 8, 9, 16, 25, 27, 49, 6, 12, 36]
        for ti, n_ in enumerate(tiny_n):
            if ti % nworkers != idx % nworkers and (ti + 5) % nworkers != idx:
                continue
            user, pw, salt_ = c01.rand_cred(rnd), c01.rand_cred(rnd), c03.rb(rnd, 32)
            for g in (1, 2, 3, 5, 7):
                for Bv in range(1, 2 * n_ + 2):
                    for a in (M.to_le(1), M.to_le(2), M.to_le(rnd.getrandbits(255) | 1), M.to_le(rnd.getrandbits(255) << 1)):
                        _raw_client(w, {"user": user, "pw": pw, "cuser": user, "cpw": pw, "salt": salt_.hex(), "g": g, "n": M.to_le(n_).hex(),
                                        "b": M.to_le(1).hex(), "a": a.hex(), "Bmode": "honest", "B": Bv})
                        mon.count("tiny_modulus_calls")
        # ---- the standard group with server keys that make the base of the client's power a small number of either sign
        #      (B = 3v + d, d = -24..24: -g, -1, 0, +1, +g ... ), and the same shifted by N; odd and even private keys
        w.kind = "small_bases_of_either_sign"
        if idx % 4 == 3 or nworkers < 4:
            user, pw = c01.rand_cred(rnd), c01.rand_cred(rnd)
            for _ in range(40):
                # an account whose 3v + d still fits in 32 bytes, so that the key can be sent unreduced and the base is d itself
                salt_ = c03.rb(rnd, 32)
                v_ = M.calc_v(M.norm(user), M.norm(pw), salt_)
                if 30 < 3 * v_ < 2 ** 256 - 30:
                    break
            for d in range(-24, 25):
                for shift in (0, -M.N, M.N):
                    Bv = 3 * v_ + d + shift
                    if Bv in (0, M.N) or Bv >= 2 ** 256 or Bv <= 0:
                        continue
                    for a in (M.to_le(rnd.getrandbits(255) | 1), M.to_le(rnd.getrandbits(255) << 1)):
                        _raw_client(w, {"user": user, "pw": pw, "cuser": user, "cpw": pw, "salt": salt_.hex(), "g": 7, "n": M.N_LE.hex(),
                                        "b": M.to_le(1).hex(), "a": a.hex(), "Bmode": "honest", "B": Bv})
                        mon.count("small_base_calls")
        # ---- the same account (same x) and generator under different announced moduli, one after the other
        w.kind = "same_account_other_modulus"
        for rep_ in range(2 * scale):
            user, pw, salt_ = c01.rand_cred(rnd), c01.rand_cred(rnd), c03.rb(rnd, 32)
            for g in (7, 11, 2):
                for n_ in (M.N, 5, 257, c03.random_prime(rnd, 64), M.N, 9, c03.random_prime(rnd, 200), 65537):
                    _raw_client(w, {"user": user, "pw": pw, "cuser": user, "cpw": pw, "salt": salt_.hex(), "g": g, "n": M.to_le(n_).hex(),
                                    "b": c03.rb(rnd, 32).hex(), "a": c03.rb(rnd, 32).hex(), "Bmode": "honest"})
                    mon.count("same_account_other_modulus_calls")
        # ---- C04: public-key family samples and own-key paths
        w.kind = "c04"
        for i in range(40 * scale):
            mask = rnd.getrandbits(32)
            x = bytes(M.N_LE[j] if (mask >> j) & 1 else 0 for j in range(32))
            w.call("pk", A=x)
        for x in (bytes(32), M.N_LE, M.to_le(M.N + 1), M.to_le(M.N - 1), b"\xff" * 32):
            w.call("pk", A=x)
        inv3 = pow(3, -1, M.N)
        for bstar in (0, 183, 1, M.N - 1, rnd.getrandbits(255)):
            v = (bstar - 7) * inv3 % M.N
            w.reset()
            w.call("ver_db", into=1, u="OWNKEY", v=M.to_le(v), salt=bytes(32))
            w.script([M.to_le(1)])
            w.call("ver_proof", h=1, into=2)
        # ---- C14 hostile values
        w.kind = "c14"
        for i in range(1 * scale):
            c14.server_hostile(w, rnd, sink, False)
            c14.client_hostile(w, rnd, sink, False)
        # ---- several threads in one process (not lock-step: thread schedules differ): each back end runs honest logins on 16
        #      threads at once, odd threads additionally run client sessions under other announced groups; every transcript is
        #      judged by the model, so the two back ends agree with each other through it
        if idx in (1, 2) and tier != "miri":
            from sessions import parse_transcripts, judge_transcript
            for name, x in (("num", w.a), ("rug", w.b)):
                ev = x.call("mt_logins", n=(1600 if tier == "quick" else 8000), threads=16, tag=seed * 10 + idx)
                rp = {"engine": "wsx", "kind": "raw", "commands": [ev.cmd]}
                mon.ev()
                if ev.status != "ok":
                    mon.violation("c19:mt:%s:%s" % (name, ev.f.get("stage", ev.status)), "multi-threaded logins failed on the %s back end: %s" % (name, str(ev.f)[:300]), rp)
                    continue
                for k, (t, d) in enumerate(parse_transcripts(ev, 16)):
                    judge_transcript(d, mon, "c19:" + name, with_model=(k % 4 == 0), replay=rp)
                    mon.count("multi_threaded_logins:" + name)
                mon.cell(("mt", name, idx))
    except ExecutorDied:
        pass
    finally:
        w.close()
    mon.count("dual_calls", w.calls)
    mon.sample({"workload_kinds": sorted({c[0] for c in mon.cells})}, cap=1)
    return mon


def randomness_alignable():
    """True if a scripted chunk determines salt, b, a, the reconnect challenges on both executors."""
    from wsx import Wsx
    ok = True
    for binary in (WSX, WSX_RUG):
        w = Wsx(binary)
        try:
            chunk = bytes(range(1, 33))
            w.script([chunk])
            v = w.call("ver_new", into=1, u="PROBE", p="PROBE")
            if not v.ok or v.b("salt") != chunk:
                ok = False
            w.script([M.to_le(5)])
            p = w.call("ver_proof", h=1, into=2)
            if not p.ok or M.to_le(M.calc_B(M.le(v.b("v")), 5)) != p.b("B"):
                ok = False
            w.script([M.to_le(9)])
            c = w.call("cli_new", into=3, u="PROBE", p="PROBE", g=7, N=M.N_LE, B=p.b("B"), salt=v.b("salt"))
            if not c.ok or c.b("A") != M.to_le(M.calc_A(9)):
                ok = False
            if c.ok:
                w.script([bytes(range(40, 56))])
                s = w.call("proof_server", h=2, into=4, A=c.b("A"), M1=c.b("M1"))
                if not s.ok or s.b("chal") != bytes(range(40, 56)):
                    ok = False
        except Exception:
            ok = False
        finally:
            w.close()
    return ok


def fallback_rug_vs_model(mon, rnd, idx, nworkers, scale):
    from wsx import Wsx
    w = Wsx(WSX_RUG)
    inner = Monitor()
    try:
        for i in range(60 * scale):
            user, pw = c01.rand_cred(rnd), c01.rand_cred(rnd)
            c03.lm_session(w, {"user": user, "pw": pw, "salt": None, "b": None, "a": c03.rb(rnd, 32).hex(), "vmode": "register"}, inner)
            c03.ml_session(w, {"user": user, "pw": pw, "cuser": user, "cpw": pw, "salt": c03.rb(rnd, 32).hex(), "g": rnd.choice([7, 2, 200]),
                               "n": rnd.choice([c03.N_HEX, M.to_le(c03.random_prime(rnd, rnd.choice([16, 64, 255]))).hex()]),
                               "b": c03.rb(rnd, 32).hex(), "a": None, "Bmode": "honest"}, inner)
        c14.server_hostile(w, rnd, inner, False)
        c14.client_hostile(w, rnd, inner, False)
    except ExecutorDied as e:
        mon.violation("c19:executor_died:rug", "GMP executor died", {"engine": "wsx", "kind": "raw", "commands": e.last_cmds})
    finally:
        w.close()
    mon.ev(inner.evals)
    for c in inner.cells:
        mon.cell(("rug_vs_model",) + tuple(c))
    for v in inner.violations:
        mon.violation("c19:rug_vs_model:" + v["sig"], "GMP back end differs from the model (num-bigint agrees with it in C03/C14): " + v["what"], v["replay"])
    mon.count("rug_vs_model_sessions", inner.evals)
    return mon


def _raw_client(w, sc):
    """cli_new with model-server values, without skipping degenerate exchanges."""
    un, pn = M.norm(sc["user"]), M.norm(sc["pw"])
    salt = bytes.fromhex(sc["salt"])
    n = M.le(bytes.fromhex(sc["n"]))
    g = sc["g"]
    v = pow(g, M.calc_x(un, pn, salt), n)
    Bi = (3 * v + pow(g, M.le(bytes.fromhex(sc["b"])), n)) % n
    if sc["Bmode"] == "unreduced" and Bi + n < 2 ** 256:
        Bi += n
    if Bi in (0, M.N):
        Bi += n
    if sc.get("B") is not None:
        Bi = sc["B"]
    w.reset()
    w.script([sc["a"]])
    r = w.call("cli_new", into=4, u=sc["cuser"], p=sc["cpw"], g=g, N=bytes.fromhex(sc["n"]), B=M.to_le(Bi), salt=salt)
    if r.ok:
        w.call("cli_verify", h=4, into=6, M2=bytes(20))


def replay_any(r):
    return Monitor()
