"""Session drivers for the E1 executor: library<->library (LL), library
server <-> model client (LM), model server <-> library client (ML)."""
import model as M
from wsx import fmt

N_LE = M.N_LE


def _hexs(b):
    return b.hex() if b is not None else None


class Session:
    """Result of one LL session; every field is what the public API returned."""
    __slots__ = ("sc", "events", "user_acc", "v", "salt", "salt_draw", "B", "b_draw", "A", "a_draw", "M1",
                 "srv", "M2", "Ks", "chal", "cli", "Kc", "reimport_ok", "panic", "err_stage")


def ll_login(w, sc):
    """Run one library<->library login described by scenario `sc` and return a
    Session. Scenario keys:
      user, pw            registration credentials (str)
      cuser, cpw          what the client types (str; case variants)
      salt, a, b          optional hex strings to inject (else real randomness, logged)
      reimport            bool: export the record and re-import with from_database_values
    Handles used: 1 verifier, 2 re-imported verifier, 3 proof, 4 client challenge, 5 server, 6 client.
    """
    s = Session()
    s.sc = sc
    for k in Session.__slots__:
        if k != "sc":
            setattr(s, k, None)
    lines = ["reset"]
    ids = {}

    def nid(name):
        ids[name] = w.new_id()
        return ids[name]

    if sc.get("salt"):
        lines.append(fmt("rng_script", chunks=sc["salt"]))
    if sc.get("noise"):
        lines.append("noise\tk=%d" % sc["noise"])
    lines.append(fmt("ver_new", id=nid("ver"), into=1, u=sc["user"], p=sc["pw"]))
    vh = 1
    if sc.get("reimport"):
        # values flow from the accessors of the first record into the constructor
        # the name is exported either through the accessor or through Display of the credential object
        ufield = "user_display" if sc.get("export_via_display") else "user"
        lines.append("ver_db\tid=%d\tinto=2\tu=$%d.%s\tv=$%d.v\tsalt=$%d.salt" % (nid("db"), ids["ver"], ufield, ids["ver"], ids["ver"]))
        vh = 2
    if sc.get("b"):
        lines.append(fmt("rng_script", chunks=sc["b"]))
    lines.append(fmt("ver_proof", id=nid("proof"), h=vh, into=3))
    lc = sc.get("lifecycle")
    if lc == "use_clone_drop_original":
        lines += ["clone\th=3\tinto=13", "drop\th=3", "clone\th=13\tinto=3", "drop\th=13"]
    elif lc == "drop_clone_use_original":
        lines += ["clone\th=3\tinto=13", "drop\th=13"]
    elif lc == "clone_fails_first":
        # a copy is consumed by a failing attempt (wrong proof) before the original takes the honest one
        lines += ["clone\th=3\tinto=13", "proof_server\th=13\tinto=14\tA=%s\tM1=%s" % ((b"\x05" + bytes(31)).hex(), bytes(20).hex())]
    if sc.get("foreign_group_first"):
        # the same account (same name, password and salt) is first asked to log in under another announced group - a forged or
        # corrupted challenge - on the same thread; whatever that call returns, the honest exchange that follows must succeed
        fg, fn = sc["foreign_group_first"]
        lines.append("cli_new\tinto=24\tu=%s\tp=%s\tg=%d\tN=%s\tB=$%d.B\tsalt=$%d.salt" % (
            sc["cuser"].encode().hex(), sc["cpw"].encode().hex(), fg, fn, ids["proof"], ids["proof"]))
    if sc.get("a"):
        lines.append(fmt("rng_script", chunks=sc["a"]))
    lines.append("cli_new\tid=%d\tinto=4\tu=%s\tp=%s\tg=7\tN=%s\tB=$%d.B\tsalt=$%d.salt" % (
        nid("cli"), sc["cuser"].encode().hex(), sc["cpw"].encode().hex(), N_LE.hex(), ids["proof"], ids["proof"]))
    if lc == "use_clone_drop_original":
        lines += ["clone\th=4\tinto=14", "drop\th=4", "clone\th=14\tinto=4", "drop\th=14"]
    lines.append("proof_server\tid=%d\th=3\tinto=5\tA=$%d.A\tM1=$%d.M1" % (nid("srv"), ids["cli"], ids["cli"]))
    lines.append("cli_verify\tid=%d\th=4\tinto=6\tM2=$%d.M2" % (nid("fin"), ids["srv"]))
    # batch: a failing step makes later refs unresolvable -> those come back as 'bad';
    # use a tolerant batch
    w.recent.extend(lines)
    if len(w.recent) > 64:
        del w.recent[:32]
    w.send_lines(lines)
    evs = [w.read_event(l) for l in lines]
    s.events = evs
    byop = {}
    for l, e in zip(lines, evs):
        if "\tinto=14" in l and l.startswith("proof_server"):
            continue  # the deliberately failing attempt of the lifecycle scenario
        if "\tinto=24" in l and l.startswith("cli_new"):
            continue  # the session under a foreign group: its outcome is not judged here
        byop.setdefault(l.split("\t", 1)[0], []).append(e)
    for l, e in zip(lines, evs):
        if e.status == "panic" and not ("\tinto=24" in l and l.startswith("cli_new")):
            s.panic = e
            return s
    ver = byop["ver_new"][0]
    if not ver.ok:
        s.err_stage = "ver_new:" + ver.status + ":" + str(ver.f)[:200]
        return s
    s.user_acc = ver.b("user")
    s.v = ver.b("v")
    s.salt = ver.b("salt")
    s.salt_draw = ver.rng
    if sc.get("reimport"):
        db = byop["ver_db"][0]
        if not db.ok:
            # the exported record is not accepted back by the constructor (e.g. the exported name is not a valid credential)
            s.reimport_ok = False
            s.err_stage = "reimport: exported record refused by from_database_values / NormalizedString: %s (exported username %r)" % (
                db.f.get("msg", db.status), s.user_acc)
            return s
        s.reimport_ok = (db.b("user") == s.user_acc and db.b("v") == s.v and db.b("salt") == s.salt)
    pr = byop["ver_proof"][0]
    if not pr.ok:
        s.err_stage = "ver_proof:" + pr.status + ":" + str(pr.f)[:200]
        return s
    s.B = pr.b("B")
    s.b_draw = pr.rng
    if pr.b("salt") != s.salt:
        s.err_stage = "proof.salt != verifier.salt"
    cl = byop["cli_new"][0]
    if not cl.ok:
        s.err_stage = "cli_new:" + cl.status + ":" + str(cl.f)
        return s
    s.A = cl.b("A")
    s.M1 = cl.b("M1")
    s.a_draw = cl.rng
    sv = byop["proof_server"][0]
    s.srv = sv
    if sv.ok:
        s.M2 = sv.b("M2")
        s.Ks = sv.b("K")
        s.chal = sv.b("chal")
    fin = byop["cli_verify"][0]
    s.cli = fin
    if fin.ok:
        s.Kc = fin.b("K")
    return s


def key_candidates(draws):
    """Plausible readings of a 32-byte key from the draws logged during one call."""
    if not draws:
        return []
    out = []
    for d in draws:
        if len(d) == 32:
            out.append(d)
    cat = b"".join(draws)
    if len(cat) >= 32:
        out.append(cat[:32])
        out.append(cat[-32:])
    seen = []
    for c in out:
        if c not in seen:
            seen.append(c)
    return seen


def whitebox(s):
    """Recompute every value of an LL session with the model from the logged
    draws. Returns (info, attribution_ok). attribution_ok False means the
    logged draws do not explain the public keys (hook is short-sighted here)."""
    sc = s.sc
    un, pn = M.norm(sc["user"]), M.norm(sc["pw"])
    info = {}
    if not s.salt_draw or s.salt_draw[0] != s.salt:
        info["salt_attr"] = False
    else:
        info["salt_attr"] = True
    v = M.calc_v(un, pn, s.salt)
    info["v"] = v
    info["v_ok"] = (M.to_le(v) == s.v)
    # the key may have been drawn in one piece, in several pieces, or after other draws: try the plausible readings
    srv = cli = None
    for cand in key_candidates(s.b_draw):
        t = M.ServerSide(un, s.v, s.salt, M.le(cand))
        if t.B_bytes == s.B:
            srv = t
            break
    for cand in key_candidates(s.a_draw):
        t = M.ClientSide(M.norm(sc["cuser"]), M.norm(sc["cpw"]), M.le(cand))
        if t.A_bytes == s.A:
            cli = t
            break
    info["B_ok"] = srv is not None
    info["A_ok"] = cli is not None
    if srv is None or cli is None:
        return info, False
    ss = srv.session(s.A)
    cs = cli.session(s.B, s.salt)
    info["srv"] = ss
    info["cli"] = cs
    info["z"] = M.low_zero_bytes(ss["S"])
    info["neg_base"] = (M.le(s.B) - 3 * M.calc_v(M.norm(sc["cuser"]), M.norm(sc["cpw"]), s.salt)) < 0
    info["hz"] = {"S": M.high_zero_bytes(ss["S"]), "A": M.high_zero_bytes(M.le(s.A)),
                  "B": M.high_zero_bytes(M.le(s.B)), "v": M.high_zero_bytes(v)}
    return info, True


def parse_transcripts(ev, threads):
    """mt_logins event -> list of (thread index, dict)"""
    out = []
    for t in range(threads):
        raw = ev.f.get("t%d" % t, "")
        for item in raw.split(","):
            if not item:
                continue
            d = {}
            for kv in item.split(";"):
                k, _, v = kv.partition("=")
                d[k] = v
            out.append((t, d))
    return out


def judge_transcript(d, mon, prefix, with_model, replay):
    """One login that ran on one of several threads of one process. Model-free part: both accept, keys equal.
    With the model: verifier, public keys for the logged draws, K, M1, M2 byte-exact."""
    mon.ev()
    if d.get("srv") != "ok":
        mon.violation(prefix + ":mt:server_rejects", "in a multi-threaded process the server refused an honest client: %s" % {k: d.get(k) for k in ("u", "p", "cp", "sp")}, replay)
        return
    if d.get("cli") != "ok":
        mon.violation(prefix + ":mt:client_rejects", "in a multi-threaded process the client refused the honest server's proof", replay)
        return
    if d.get("Ks") != d.get("Kc") or len(d.get("Ks", "")) != 80:
        mon.violation(prefix + ":mt:keys_differ", "in a multi-threaded process the two session keys differ", replay)
        return
    if not with_model:
        return
    user = bytes.fromhex(d["u"]).decode()
    pw = bytes.fromhex(d["p"]).decode()
    un, pn = M.norm(user), M.norm(pw)
    salt = bytes.fromhex(d["salt"])
    v = M.to_le(M.calc_v(un, pn, salt))
    if v.hex() != d["v"]:
        mon.violation(prefix + ":mt:verifier", "verifier differs from the model in a multi-threaded process (user %r)" % user, replay)
        return
    B, A = bytes.fromhex(d["B"]), bytes.fromhex(d["A"])
    srv = None
    for cand in key_candidates([bytes.fromhex(x) for x in d.get("db", "").split("+") if x]):
        t = M.ServerSide(un, v, salt, M.le(cand))
        if t.B_bytes == B:
            srv = t
            break
    if srv is None:
        mon.count("mt_logins_not_attributable")
        # black-box: the model client cannot be run after the fact; agreement was checked above
        return
    ss = srv.session(A)
    mon.count("mt_logins_compared_with_model")
    if ss["K"].hex() != d["Ks"] or ss["M1"].hex() != d["M1"] or ss["M2"].hex() != d["M2"]:
        mon.violation(prefix + ":mt:values_differ_from_model", "K / M1 / M2 of a login in a multi-threaded process differ from the model (user %r, z=%d)" % (
            user, M.low_zero_bytes(ss["S"])), replay)
    for cand in key_candidates([bytes.fromhex(x) for x in d.get("da", "").split("+") if x]):
        if M.to_le(M.calc_A(M.le(cand))) == A:
            mon.count("mt_A_attributed")
            break
