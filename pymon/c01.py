"""C01 — honest client and server always authenticate and agree (E1, LL)."""
import json
import os

import model as M
from common import Monitor, rng_for, ROOT
from sessions import ll_login, whitebox
from wsx import Wsx, ExecutorDied

ALPHABET = [chr(c) for c in range(0x20, 0x7F)]
RULE = ("library client <-> library server logins; a case is non-trivial and distinct by its cell "
        "(username length, password length, class) where class combines: low-order zero bytes z of S, "
        "negative base, high-order zero bytes of S/A/B/v, re-import, case-variant typing, injected boundary salt/keys")


def rand_cred(rnd):
    r = rnd.random()
    if r < 0.15:
        n = 1
    elif r < 0.35:
        n = 16
    elif r < 0.45:
        n = 15
    else:
        n = rnd.randint(1, 16)
    return "".join(rnd.choice(ALPHABET) for _ in range(n))


def case_variant(rnd, s):
    mode = rnd.randint(0, 3)
    if mode == 0:
        return s
    if mode == 1:
        return s.lower()
    if mode == 2:
        return s.upper()
    return "".join(c.lower() if rnd.random() < 0.5 else c.upper() for c in s)


BOUNDARY_SALTS = [bytes(32), b"\xff" * 32, bytes(31) + b"\x01", b"\x01" + bytes(31), bytes(16) + b"\xaa" * 16,
                  b"\xaa" * 16 + bytes(16)]
BOUNDARY_KEYS = [M.to_le(0), M.to_le(1), M.to_le(2), b"\xff" * 32, M.to_le(M.N - 1), M.to_le(M.N), M.to_le(M.N + 1),
                 bytes(31) + b"\x01", M.to_le(2 ** 255)]


def load_corpus():
    out = []
    for z in (1, 2, 3):
        p = os.path.join(ROOT, "corpus", "z%d.jsonl" % z)
        if os.path.exists(p):
            for l in open(p):
                l = l.strip()
                if l:
                    e = json.loads(l)
                    out.append(e)
    return out


def validate_corpus_entry(e):
    """Model re-validation: returns z actually reached (inputs only are trusted)."""
    un, pn = M.norm(e["user"]), M.norm(e["pw"])
    salt = bytes.fromhex(e["salt"])
    v = M.calc_v(un, pn, salt)
    srv = M.ServerSide(un, M.to_le(v), salt, M.le(bytes.fromhex(e["b"])))
    cli = M.ClientSide(un, pn, M.le(bytes.fromhex(e["a"])))
    S = srv.session(cli.A_bytes)["S"]
    return M.low_zero_bytes(S)


def judge(s, mon, sc):
    """Oracle of C01 on one session; returns class label."""
    mon.ev()
    replay = {"engine": "wsx", "kind": "c01", "scenario": sc}
    if s.panic is not None:
        mon.violation("c01:panic:" + s.panic.cmd.split("\t")[0], "public call panicked in an honest login: %s" % s.panic.f.get("msg"), replay)
        return "panic"
    if s.err_stage:
        mon.violation("c01:stage:" + s.err_stage.split(":")[0], "honest login did not proceed: %s" % s.err_stage, replay)
        return "err"
    # replay with the logged draws injected
    def with_draws():
        sc2 = dict(sc)
        if s.salt_draw:
            sc2["salt"] = s.salt_draw[0].hex()
        if s.b_draw:
            sc2["b"] = s.b_draw[0].hex()
        if s.a_draw:
            sc2["a"] = s.a_draw[0].hex()
        return {"engine": "wsx", "kind": "c01", "scenario": sc2}

    info, attr = whitebox(s)
    cls = []
    if attr:
        z = info["z"]
        cls.append("z%d" % z)
        mon.hist("low_zero_bytes_of_S", z)
        if info["neg_base"]:
            cls.append("neg")
            mon.count("negative_base_sessions")
        for k, n in info["hz"].items():
            if n:
                cls.append("hz%s%d" % (k, n))
                mon.hist("high_zero_bytes_" + k, n)
    else:
        mon.count("whitebox_attribution_failed")
        if sc.get("a") or sc.get("b"):
            mon.inconc("private-key injection / attribution ineffective: corpus and boundary-key classes were run as ordinary logins, "
                       "their classes (zero bytes of S etc.) could not be confirmed")
    if sc.get("reimport"):
        cls.append("reimp")
        mon.count("reimported")
        if not s.reimport_ok:
            mon.violation("c01:reimport", "re-imported record differs from the exported accessors", with_draws())
    if sc["cuser"] != sc["user"] or sc["cpw"] != sc["pw"]:
        cls.append("case")
        mon.count("case_variant_typed")
    if sc.get("lifecycle"):
        cls.append("lc")
        mon.count("lifecycle:" + sc["lifecycle"])
    if sc.get("foreign_group_first"):
        cls.append("fg")
        mon.count("same_account_under_a_foreign_group_first")
    if sc.get("salt"):
        cls.append("bsalt")
    if sc.get("a") or sc.get("b"):
        cls.append("inj")
    zc = "+".join(cls) if cls else "plain"
    # accessor: username() is the normalised registration name
    if M.norm(s.user_acc.decode("utf-8", "replace")) != M.norm(sc["user"]):
        mon.violation("c01:accessor:user", "username() returned %r for %r" % (s.user_acc, sc["user"]), with_draws())
    if not s.srv.ok:
        mon.violation("c01:server_rejects:" + (("z%d" % info["z"]) if attr else "?") + (":neg" if attr and info["neg_base"] else ""),
                      "server refused an honest client (%s): %s" % (zc, s.srv.f), with_draws())
        return zc
    if not s.cli.ok:
        mon.violation("c01:client_rejects:" + (("z%d" % info["z"]) if attr else "?"),
                      "client refused the honest server's proof (%s): %s" % (zc, s.cli.f), with_draws())
        return zc
    if s.Ks != s.Kc or len(s.Ks) != 40:
        mon.violation("c01:keys_differ:" + (("z%d" % info["z"]) if attr else "?"),
                      "session keys differ (%s): %s vs %s" % (zc, s.Ks.hex(), s.Kc.hex()), with_draws())
        return zc
    if attr:
        # white-box add-on (also tells the class): the model's K equals both
        if info["srv"]["K"] != s.Ks:
            mon.count("whitebox_K_differs_from_model")
    mon.cell((len(sc["user"]), len(sc["pw"]), zc))
    mon.sample({"user": sc["user"], "pw": sc["pw"], "typed": [sc["cuser"], sc["cpw"]], "class": zc,
                "K": s.Ks.hex()[:16] + "..", "reimport": bool(sc.get("reimport"))})
    return zc


def scenario(rnd, kind):
    user = rand_cred(rnd)
    pw = rand_cred(rnd)
    sc = {"user": user, "pw": pw, "cuser": case_variant(rnd, user), "cpw": case_variant(rnd, pw),
          "reimport": rnd.random() < 0.5}
    if sc["reimport"] and rnd.random() < 0.5:
        sc["export_via_display"] = True
    if rnd.random() < 0.05:
        sc["noise"] = rnd.getrandbits(16)
    if rnd.random() < 0.06:
        # (generator, modulus) of a foreign group: another generator with the built-in prime, another prime, a composite
        sc["foreign_group_first"] = rnd.choice([(2, M.N_LE.hex()), (11, M.N_LE.hex()), (7, M.to_le(M.N - 2 ** 200 + 1).hex()),
                                                (7, M.to_le(2 ** 255 + 95).hex()), (3, M.to_le(65537).hex())])
    r = rnd.random()
    if r < 0.06:
        sc["lifecycle"] = rnd.choice(["use_clone_drop_original", "drop_clone_use_original", "clone_fails_first"])
    if kind == "bsalt":
        sc["salt"] = rnd.choice(BOUNDARY_SALTS).hex()
    elif kind == "bkeys":
        sc["a"] = rnd.choice(BOUNDARY_KEYS).hex()
        sc["b"] = rnd.choice(BOUNDARY_KEYS).hex()
        if rnd.random() < 0.5:
            sc["salt"] = rnd.choice(BOUNDARY_SALTS).hex()
    return sc


def all_case_variants(s):
    idx = [i for i, c in enumerate(s) if c.isalpha()]
    out = []
    for mask in range(1 << len(idx)):
        t = list(s)
        for j, i in enumerate(idx):
            t[i] = t[i].upper() if (mask >> j) & 1 else t[i].lower()
        out.append("".join(t))
    return out


def worker(idx, nworkers, tier, seed, extra):
    mon = Monitor()
    rnd = rng_for(seed, "c01", idx)
    n_random = {"quick": 9000, "thorough": 300000, "miri": 0}[tier]
    w = Wsx()
    try:
        # process history: three of four executors first see a client session under another announced modulus
        # (its result is not judged); state remembered from that first group would disturb the logins that follow
        first = {1: 2, 2: 3, 3: 257}.get(idx % 4)
        if first:
            w.call("cli_new", into=9, u="First", p="session", g=7, N=M.to_le(first), B=M.to_le(1), salt=bytes(32))
            mon.count("executors_started_with_another_modulus")
        # corpus classes (sharded)
        corpus = load_corpus()
        for i, e in enumerate(corpus):
            if i % nworkers != idx:
                continue
            z = validate_corpus_entry(e)
            if z < e["z"]:
                mon.inconc("corpus entry %d does not reach z=%d by the model (got %d)" % (i, e["z"], z))
                continue
            for variant in range(3):
                sc = {"user": e["user"], "pw": e["pw"], "cuser": case_variant(rnd, e["user"]),
                      "cpw": case_variant(rnd, e["pw"]), "salt": e["salt"], "a": e["a"], "b": e["b"],
                      "reimport": variant == 1}
                s = ll_login(w, sc)
                judge(s, mon, sc)
                mon.count("corpus_sessions_z%d" % z)
        # all 2^n case variants for short names (n <= 6 letters)
        if idx == 0:
            for base in ("aB", "abcD", "AbCdEf", "a1b2c3", "x"):
                for cu in all_case_variants(base):
                    sc = {"user": base, "pw": "pW" + base[::-1], "cuser": cu, "cpw": rnd.choice(all_case_variants("pW" + base[::-1])),
                          "reimport": False}
                    judge(ll_login(w, sc), mon, sc)
                    mon.count("exhaustive_case_variants")
        # several threads of ONE process log in at the same time (state shared between sessions or threads, or the
        # n-th login of a process behaving differently, would show here); worker 1 runs more than 2^16 logins in its process
        if idx in (1, 2) and tier != "miri":
            from sessions import parse_transcripts, judge_transcript
            per = {1: 4200, 2: 600}[idx] if tier == "quick" else {1: 8400, 2: 4200}[idx]
            ev = w.call("mt_logins", n=per, threads=16, tag=seed * 10 + idx)
            rp = {"engine": "wsx", "kind": "raw", "commands": [ev.cmd]}
            if ev.status != "ok":
                mon.violation("c01:mt:" + ev.f.get("stage", ev.status), "multi-threaded logins failed: %s" % str(ev.f)[:300], rp)
            else:
                for k, (t, d) in enumerate(parse_transcripts(ev, 16)):
                    judge_transcript(d, mon, "c01", with_model=(k % 16 == 0), replay=rp)
                    mon.count("multi_threaded_logins")
                mon.cell(("mt", idx))
        from common import load_name_collisions
        for i, (hname, a, b) in enumerate(load_name_collisions()):
            if i % nworkers != idx:
                continue
            for (u1, p1, u2, p2) in ((a, "pw1", b, "pw2"), (b, a, a, b), ("user", a, "user", b)):
                for (u, p_) in ((u1, p1), (u2, p2), (u1, p1)):
                    sc = {"user": u, "pw": p_, "cuser": u.lower(), "cpw": p_.upper(), "reimport": False}
                    judge(ll_login(w, sc), mon, sc)
                    mon.count("colliding_credential_logins")
        # volume with real randomness, plus boundary injections
        for k in range(n_random):
            r = rnd.random()
            kind = "bsalt" if r < 0.03 else ("bkeys" if r < 0.06 else "plain")
            sc = scenario(rnd, kind)
            s = ll_login(w, sc)
            judge(s, mon, sc)
    except ExecutorDied as e:
        mon.violation("c01:executor_died", "executor process died (abort/signal) rc=%s" % e.rc,
                      {"engine": "wsx", "kind": "raw", "commands": e.last_cmds})
    finally:
        w.close()
    return mon


def replay(sc, binary=None):
    mon = Monitor()
    w = Wsx(binary)
    try:
        s = ll_login(w, sc)
        judge(s, mon, sc)
    finally:
        w.close()
    return mon
