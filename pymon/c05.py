"""C05 — reconnect proofs verify only against the current, single-use challenge (E1, history monitor)."""
import model as M
from common import Monitor, rng_for
from c01 import rand_cred, case_variant
from sessions import ll_login
from wsx import Wsx, ExecutorDied

KINDS = ["lib_client", "model_correct", "replay_accepted", "replay_rejected", "stale_challenge", "wrong_key_bit",
         "wrong_username", "proof_bitflip", "client_data_bitflip", "all_zero", "proof_cancelling_change",
         "client_data_is_server_challenge", "client_data_of_last_rejected_right_proof", "client_data_of_last_accepted_right_proof"]
RULE = ("per authenticated SrpServer a random history of reconnect attempts over the kinds %s; every attempt is judged: "
        "verdict == (proof == H(U | client_data | challenge-on-offer | K)) with the challenge read through the accessor, and "
        "the challenge after the attempt differs from every earlier challenge of that object. Distinct non-trivial cases = "
        "(previous kind, kind) pairs x verdict; real randomness only" % KINDS)


def flipbit(b, bit):
    x = bytearray(b)
    x[bit // 8] ^= 1 << (bit % 8)
    return bytes(x)


def run_history(w, sc, mon, pair_seen):
    rnd = rng_for(sc["hseed"], "c05hist")
    replay = {"engine": "wsx", "kind": "c05", "scenario": sc}

    kinds_done = []

    def viol(sig, what):
        sc2 = dict(sc)
        sc2["plan"] = list(kinds_done)
        mon.violation("c05:" + sig, what, {"engine": "wsx", "kind": "c05", "scenario": sc2})

    s = ll_login(w, sc)
    if s.panic is not None or s.err_stage or not (s.srv and s.srv.ok and s.cli and s.cli.ok):
        mon.count("login_failed_skipped")  # C01's business
        return
    K = s.Ks
    un = M.norm(sc["user"])
    chal = s.chal
    seen = [chal]
    seen_set = {chal}
    fresh_threads = bool(sc.get("fresh_threads"))
    accepted = []
    rejected = []
    prev_kind = "start"
    plan = sc.get("plan")
    n = len(plan) if plan else sc["length"]
    hist_log = []
    if sc.get("very_long"):
        n = sc["very_long"]
        plan = None
    for step in range(n):
        if sc.get("very_long"):
            # more than 2^16 attempts on one session; a captured pair is replayed at distances 2^16 and 2^16 + 1
            if step in (65536, 65537, 65538) and accepted:
                kind = "replay_accepted"
            else:
                kind = ("model_correct", "all_zero", "proof_bitflip")[step % 3] if step > 2 else "model_correct"
        elif plan:
            kind = plan[step]
        else:
            # prefer an unseen (prev, kind) pair
            cands = [k for k in KINDS if (prev_kind, k) not in pair_seen]
            kind = rnd.choice(cands) if cands and rnd.random() < 0.7 else rnd.choice(KINDS)
        if kind == "replay_accepted" and not accepted:
            kind = "model_correct"
        if kind == "replay_rejected" and not rejected:
            kind = "all_zero"
        if kind == "stale_challenge" and len(seen) < 2:
            kind = "proof_bitflip"
        if kind == "client_data_of_last_rejected_right_proof" and not rejected:
            kind = "proof_bitflip"
        if kind == "client_data_of_last_accepted_right_proof" and not accepted:
            kind = "model_correct"
        kinds_done.append(kind)
        cur = seen[-1]
        data = bytes(rnd.getrandbits(8) for _ in range(16))
        if kind == "lib_client":
            r = w.call("clt_reconnect", h=6, chal=cur)
            if r.status != "ok":
                viol("panic:calculate_reconnect_values", str(r.f))
                return
            data, proof = r.b("data"), r.b("proof")
            mon.count("client_reconnect_proofs_compared")
            if proof != M.reconnect_proof(un, data, cur, K):
                viol("client_proof", "SrpClient reconnect proof differs from H(U|client_data|server_data|K)")
        elif kind == "model_correct":
            proof = M.reconnect_proof(un, data, cur, K)
        elif kind == "replay_accepted":
            data, proof = accepted[0] if sc.get("very_long") else rnd.choice(accepted)
        elif kind == "replay_rejected":
            data, proof = rnd.choice(rejected)
        elif kind == "stale_challenge":
            proof = M.reconnect_proof(un, data, rnd.choice(seen[:-1]), K)
        elif kind == "wrong_key_bit":
            proof = M.reconnect_proof(un, data, cur, flipbit(K, rnd.randrange(320)))
        elif kind == "wrong_username":
            other = un[:-1] + ("Y" if un[-1] != "Y" else "Z")
            proof = M.reconnect_proof(other, data, cur, K)
        elif kind == "proof_bitflip":
            proof = flipbit(M.reconnect_proof(un, data, cur, K), rnd.randrange(160))
        elif kind == "client_data_bitflip":
            proof = M.reconnect_proof(un, data, cur, K)
            data = flipbit(data, rnd.randrange(128))
        elif kind == "proof_cancelling_change":
            # changes in two or more bytes whose differences cancel under XOR / sum (defeats folded comparisons)
            good = M.reconnect_proof(un, data, cur, K)
            mode = rnd.randrange(3)
            if mode == 0:
                proof = good[::-1]
            elif mode == 1:
                proof = good[1:] + good[:1]
            else:
                i, j = rnd.sample(range(20), 2)
                bit = 1 << rnd.randrange(8)
                x = bytearray(good)
                x[i] ^= bit
                x[j] ^= bit
                proof = bytes(x)
        elif kind in ("client_data_of_last_rejected_right_proof", "client_data_of_last_accepted_right_proof"):
            # a client that keeps its own challenge bytes (a fixed or per-connection nonce): the same client data as in the most
            # recent refused / accepted attempt, with the proof that is right for the challenge now on offer
            data = (rejected if "rejected" in kind else accepted)[-1][0]
            proof = M.reconnect_proof(un, data, cur, K)
        elif kind == "client_data_is_server_challenge":
            # aliased inputs: the client echoes the challenge on offer (with a wrong or, sometimes, the right proof)
            data = cur
            proof = M.reconnect_proof(un, data, cur, K) if rnd.random() < 0.3 else bytes(rnd.getrandbits(8) for _ in range(20))
        else:
            data, proof = bytes(16), bytes(20)
        if fresh_threads:
            # the session is served by a freshly spawned thread for this attempt
            r = w.call("srv_reconnect", h=5, data=data, proof=proof, nt=1)
            mon.count("attempts_served_by_a_fresh_thread")
        else:
            r = w.call("srv_reconnect", h=5, data=data, proof=proof)
        mon.ev()
        if r.status != "ok":
            viol("panic:verify_reconnection_attempt:" + kind, str(r.f))
            return
        before = r.b("before")
        after = r.b("chal")
        res = r.f["res"] == "1"
        hist_log.append((kind, res))
        if before != cur:
            viol("challenge_changed_between_attempts", "challenge on offer changed without an attempt")
        expect = (proof == M.reconnect_proof(un, data, before, K))
        if res != expect:
            viol(("accepted_wrong:" if res else "rejected_right:") + kind,
                 "attempt %d kind=%s: verdict %s, expected %s (history so far %s)" % (step, kind, res, expect, hist_log[-6:]))
        if after in seen_set:
            viol("challenge_not_refreshed:after_" + ("accept" if res else "reject"),
                 "attempt %d kind=%s verdict=%s: challenge after the attempt equals an earlier challenge of this server" % (step, kind, res))
        seen.append(after)
        seen_set.add(after)
        if len(accepted) + len(rejected) < 4000:
            (accepted if res else rejected).append((data, proof))
        mon.count("accepted" if res else "rejected")
        pair_seen.add((prev_kind, kind))
        mon.cell((prev_kind, kind, res))
        prev_kind = kind
    # accessor agrees with what the last attempt reported
    g = w.call("srv_get", h=5)
    if g.ok and g.b("chal") != seen[-1]:
        viol("accessor_stale", "reconnect_challenge_data() differs from the challenge reported after the last attempt")
    if g.ok and g.b("K") != K:
        viol("session_key_changed", "session_key() changed during reconnects")
    mon.count("histories")
    mon.count("distinct_challenges_seen", len(set(seen)))
    mon.sample({"user": sc["user"], "history": hist_log[:12]}, cap=4)


def worker(idx, nworkers, tier, seed, extra):
    mon = Monitor()
    rnd = rng_for(seed, "c05", idx)
    nhist = {"quick": 800, "thorough": 40000}[tier]
    pair_seen = set()
    w = Wsx()
    try:
        for i in range(nhist):
            user, pw = rand_cred(rnd), rand_cred(rnd)
            sc = {"user": user, "pw": pw, "cuser": case_variant(rnd, user), "cpw": case_variant(rnd, pw),
                  "reimport": rnd.random() < 0.3, "hseed": rnd.getrandbits(32), "length": rnd.randint(1, 60)}
            if i % 50 == 7:
                sc["plan"] = ["lib_client"] * 100
            elif i % 50 == 8:
                sc["plan"] = ["model_correct", "replay_accepted"] * 20
            elif i % 50 == 9:
                sc["plan"] = ["proof_bitflip"] * 300 + ["lib_client", "all_zero"] * 3
            elif i % 50 == 10:
                sc["fresh_threads"] = True
            if i == 3 and idx == 0:
                sc["very_long"] = 66000
            run_history(w, sc, mon, pair_seen)
    except ExecutorDied as e:
        mon.violation("c05:executor_died", "executor died rc=%s" % e.rc, {"engine": "wsx", "kind": "raw", "commands": e.last_cmds})
    finally:
        w.close()
    return mon


def run(tier, seed):
    from common import run_sharded
    mon = run_sharded(worker, tier, seed)
    pairs = {(c[0], c[1]) for c in mon.cells}
    missing = [(a, b) for a in KINDS for b in KINDS if (a, b) not in pairs]
    # pairs that cannot exist: none; report unseen ones
    if missing:
        mon.inconc("consecutive kind pairs never observed: %s" % missing[:10])
    mon.note("kind-pair matrix: %d of %d pairs observed" % (len([p for p in pairs if p[0] != 'start']), len(KINDS) ** 2))
    return mon


def replay(sc):
    mon = Monitor()
    w = Wsx()
    try:
        run_history(w, sc, mon, set())
    finally:
        w.close()
    return mon
