"""Dispatch a check to its engine and finish with evidence + verdict."""
import importlib
import os
import subprocess
import sys
import time

import common
import model as M

ROOT = common.ROOT
WSM = os.path.join(ROOT, "harness", "target", "release", "wsm")

ASSUME_E1 = [
    "oracle: independent Python model (CPython int/pow, hashlib, hmac), self-checked against frozen maintainer vectors at start-up",
    "instrumented copy of rand 0.8.8 (draw log / script on ThreadRng) patched into the harness build; /repo untouched",
    "catch_unwind observes panics; aborts/signals are observed as executor death",
    "verdict covers only the executions produced in this run",
]
ASSUME_E2 = [
    "oracle: reference models written from the property statement inside wsm (hand-built HMAC, textbook RC4, recurrences); "
    "trusted primitives: sha1/md5 crates' digest functions; models self-checked against frozen maintainer vectors at start-up",
    "catch_unwind observes panics",
    "verdict covers only the executions produced in this run",
]

E1_MODULES = {"C01": "c01", "C02": "c02", "C03": "c03", "C05": "c05", "C06": "c06", "C14": "c14", "C15": "c15",
              "C19": "c19"}
E2_PROPS = {"C04", "C07", "C08", "C09", "C10", "C11", "C12", "C13", "C16", "C17", "C18"}
LEVEL = {"C11": "fault_enumeration"}


def model_ok():
    n, bad = M.self_check()
    if bad:
        print("INCONCLUSIVE: the Python model disagrees with the frozen vectors (%d of %d): %s" % (len(bad), n, bad[:3]))
        return False
    return True


def parse_wsm(out, mon):
    """wsm speaks a line protocol; turn it into Monitor counters."""
    rule = None
    for line in out.splitlines():
        p = line.split("\t")
        k = p[0]
        if k == "EVAL":
            mon.ev(int(p[1]))
        elif k == "DISTINCT":
            # wsm counts distinct cells itself (they can be millions); keep the number
            mon.extra_distinct += int(p[1])
        elif k == "RULE":
            rule = p[1]
        elif k == "SAMPLE":
            mon.sample(p[1])
        elif k == "COUNTER":
            mon.count(p[1], int(p[2]))
        elif k == "HIST":
            mon.hist(p[1], p[2], int(p[3]))
        elif k == "VIOLATION":
            mon.violation(p[1], p[2], {"engine": "wsm", "args": p[3].split(" ") if len(p) > 3 else []})
        elif k == "INCONCLUSIVE":
            mon.inconc(p[1])
        elif k == "NOTE":
            mon.note(p[1])
        elif k == "EXHAUSTIVE":
            mon.exhaustive = (p[1] == "1") if mon.exhaustive is None else (mon.exhaustive and p[1] == "1")
    return rule


def run_wsm(prop, tier, seed, extra_args=None, timeout=None):
    mon = common.Monitor()
    args = [WSM, prop, "--tier", tier, "--seed", str(seed)] + (extra_args or [])
    try:
        r = subprocess.run(args, stdout=subprocess.PIPE, stderr=subprocess.PIPE, timeout=timeout)
    except subprocess.TimeoutExpired:
        mon.inconc("wsm watchdog fired after %ss (inconclusive, not a violation)" % timeout)
        return mon, None
    out = r.stdout.decode(errors="replace")
    rule = parse_wsm(out, mon)
    if r.returncode not in (0, 1):
        mon.inconc("wsm exited with status %d: %s" % (r.returncode, r.stderr.decode(errors="replace")[-500:].replace("\n", " / ")))
    return mon, rule


def run(prop, tier, seed):
    t0 = time.time()
    if prop in E1_MODULES:
        if not model_ok():
            return 2
        mod = importlib.import_module(E1_MODULES[prop])
        if hasattr(mod, "run"):
            mon = mod.run(tier, seed)
        else:
            mon = common.run_sharded(mod.worker, tier, seed)
        extra = mod.extra_coverage(mon) if hasattr(mod, "extra_coverage") else None
        import featcheck
        featcheck.run(mon, prop, seed)
        return common.finish(prop, LEVEL.get(prop, "exploration"), tier, seed, mon, t0, mod.RULE,
                             ASSUME_E1 + getattr(mod, "ASSUME", []), extra)
    if prop in E2_PROPS:
        wd = {"quick": 1800, "thorough": 6 * 3600}[tier]
        mon, rule = run_wsm(prop, tier, seed, timeout=wd)
        mod = None
        try:
            mod = importlib.import_module("e2_" + prop.lower())
        except ImportError:
            pass
        if mod is not None:
            mod.extra(mon, tier, seed)  # e.g. Miri runs, E1 own-key paths
        import featcheck
        featcheck.run(mon, prop, seed)
        if tier == "thorough" and prop != "C12":
            # the reduced workload of the same monitor under the UB interpreter, several workload seeds in parallel
            import miri
            miri.run_multi(prop, [seed * 1000 + i for i in range(8)], 1, mon, "reduced %s workload with the monitors active" % prop)
        if tier == "thorough":
            import asan
            asan.run(prop, seed, mon)
        extra = {}
        return common.finish(prop, LEVEL.get(prop, "exploration"), tier, seed, mon, t0, rule or "see DESIGN.md",
                             ASSUME_E2, extra)
    print("unknown property", prop)
    return 2


def replay(rp):
    prop = rp["property"]
    r = rp["replay"]
    if r.get("engine") == "wsf":
        import featcheck
        rc, out = featcheck.build(r["combo"])
        if rc != 0:
            print("replay: the feature set does not build")
            return 2
        rc, lines = featcheck.run_binary(r["combo"], r.get("seed", 1))
        bad = [l for l in lines if l.startswith("VIOL ")]
        for l in bad[:10]:
            print("VIOLATION property=%s replay=(replayed) %s" % (prop, l[5:300]))
        if not bad:
            print("replay: no violation reproduced")
        return 1 if bad else 0
    if r.get("engine") == "wsm":
        args = [WSM, prop, "--replay"] + list(r.get("args", []))
        p = subprocess.run(args)
        return p.returncode
    if not model_ok():
        return 2
    if r.get("kind") == "raw":
        return replay_raw(r)
    mod = importlib.import_module(E1_MODULES[prop])
    mon = mod.replay_any(r) if hasattr(mod, "replay_any") else mod.replay(r["scenario"])
    for v in mon.violations:
        print("VIOLATION property=%s replay=(replayed) sig=%s" % (prop, v["sig"]))
        print("  what: %s" % v["what"])
    if not mon.violations:
        print("replay: no violation reproduced (%d evaluations)" % mon.evals)
    return 1 if mon.violations else 0


def replay_raw(r):
    """Re-execute recorded executor commands and show the events."""
    from wsx import Wsx, ExecutorDied
    from wsx import WSX, WSX_RUG
    if r.get("engine") == "wsx2":
        rc = 0
        a, b = Wsx(WSX), Wsx(WSX_RUG)
        try:
            for c in r["commands"]:
                a.send_lines([c])
                b.send_lines([c])
                ea, eb = a.read_event(c), b.read_event(c)
                fa = {k: v for k, v in ea.f.items() if k != "msg"}
                fb = {k: v for k, v in eb.f.items() if k != "msg"}
                same = ea.status == eb.status and fa == fb and ea.rng == eb.rng
                print(c.replace("\t", " ")[:160], "->", "same" if same else "DIFFERENT: num-bigint %s %s | rug %s %s" % (ea.status, ea.f, eb.status, eb.f))
                if not same:
                    rc = 1
        except ExecutorDied as e:
            print("executor died rc=%s" % e.rc)
            rc = 1
        finally:
            a.close()
            b.close()
        return rc
    w = Wsx()
    rc = 0
    try:
        for c in r["commands"]:
            w.send_lines([c])
            ev = w.read_event(c)
            print(c.replace("\t", " "), "->", ev.status, ev.f)
            if ev.status == "panic":
                rc = 1
    except ExecutorDied as e:
        print("executor died rc=%s" % e.rc)
        rc = 1
    finally:
        w.close()
    return rc
