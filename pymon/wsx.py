"""Driver side of the E1 executor: spawn wsx, send commands, parse events."""
import os
import subprocess

ROOT = os.path.normpath(os.path.join(os.path.dirname(os.path.abspath(__file__)), ".."))
WSX = os.path.join(ROOT, "harness", "target", "release", "wsx")
WSX_RUG = os.path.join(ROOT, "harness-rug", "target", "release", "wsx-rug")


class ExecutorDied(Exception):
    def __init__(self, last_cmds, rc):
        Exception.__init__(self, "executor died rc=%s" % rc)
        self.last_cmds = last_cmds
        self.rc = rc


class CredentialRefused(Exception):
    """A constructor / conversion of NormalizedString refused a string that is valid by the rule (the drivers send no others)."""

    def __init__(self, cmd, ev):
        Exception.__init__(self, "valid credential refused: %s" % ev.f)
        self.cmd = cmd
        self.f = ev.f


class Event:
    __slots__ = ("status", "f", "rng", "cmd")

    def __init__(self, status, f, rng, cmd):
        self.status = status
        self.f = f
        self.rng = rng
        self.cmd = cmd

    def b(self, k):
        return bytes.fromhex(self.f[k])

    @property
    def ok(self):
        return self.status == "ok"

    def __repr__(self):
        return "Event(%s %r rng=%r)" % (self.status, self.f, [r.hex() for r in self.rng])

    def as_json(self):
        return {"cmd": self.cmd, "status": self.status, "fields": self.f, "rng": [r.hex() for r in self.rng]}


def fmt(op, **kw):
    parts = [op]
    for k, v in kw.items():
        if v is None:
            continue
        if isinstance(v, (bytes, bytearray)):
            v = bytes(v).hex()
        elif isinstance(v, bool):
            v = "1" if v else "0"
        elif isinstance(v, str) and k in ("u", "p", "s"):
            v = v.encode("utf-8").hex()
        parts.append("%s=%s" % (k, v))
    return "\t".join(parts)


class Wsx:
    def __init__(self, binary=None, record=False):
        self.binary = binary or WSX
        self.p = subprocess.Popen([self.binary], stdin=subprocess.PIPE, stdout=subprocess.PIPE,
                                  stderr=subprocess.DEVNULL, bufsize=1 << 16)
        self.next_id = 1
        self.calls = 0
        self.record = [] if record else None
        self.recent = []

    def new_id(self):
        i = self.next_id
        self.next_id += 1
        return i

    def send_lines(self, lines):
        data = "".join(l + "\n" for l in lines).encode()
        try:
            self.p.stdin.write(data)
            self.p.stdin.flush()
        except (BrokenPipeError, OSError):
            raise ExecutorDied(lines, self.p.poll())

    def read_event(self, cmd=None):
        line = self.p.stdout.readline()
        if not line:
            rc = self.p.wait()
            raise ExecutorDied(self.recent[-5:], rc)
        parts = line.decode().rstrip("\n").split("\t")
        status = parts[0]
        f = {}
        rng = []
        for kv in parts[1:]:
            k, _, v = kv.partition("=")
            if k == "rng":
                rng = [bytes.fromhex(x) for x in v.split(",") if x]
            else:
                f[k] = v
        ev = Event(status, f, rng, cmd)
        if status == "err" and f.get("stage") == "credential" and not (cmd or "").startswith("ver_db"):
            # (a re-import of exported values is judged by the session driver itself: the exported text need not be valid)
            raise CredentialRefused(cmd, ev)
        self.calls += 1
        if self.record is not None:
            self.record.append(ev.as_json())
        return ev

    def call(self, op, **kw):
        """One command, one event."""
        line = fmt(op, **kw)
        self.recent.append(line)
        if len(self.recent) > 32:
            del self.recent[:16]
        self.send_lines([line])
        ev = self.read_event(line)
        if ev.status == "bad":
            raise RuntimeError("driver error: %s -> %s" % (line, ev.f.get("msg")))
        return ev

    def batch(self, lines):
        """Several commands at once (values may flow by $id.field references)."""
        self.recent.extend(lines)
        if len(self.recent) > 64:
            del self.recent[:32]
        self.send_lines(lines)
        evs = [self.read_event(l) for l in lines]
        for l, ev in zip(lines, evs):
            if ev.status == "bad":
                raise RuntimeError("driver error: %s -> %s" % (l, ev.f.get("msg")))
        return evs

    def script(self, chunks):
        if chunks:
            self.call("rng_script", chunks=",".join(c.hex() if isinstance(c, (bytes, bytearray)) else c for c in chunks))

    def clear(self):
        return int(self.call("rng_clear").f["pending"])

    def reset(self):
        return self.call("reset")

    def close(self):
        try:
            self.p.stdin.write(b"quit\n")
            self.p.stdin.flush()
            self.p.stdin.close()
        except Exception:
            pass
        try:
            self.p.wait(timeout=10)
        except Exception:
            self.p.kill()
