"""C15 — every ephemeral secret, salt, challenge and seed is freshly random per use (E1 census, offline statistical checker)."""
import collections

import model as M
from common import Monitor, rng_for
from wsx import Wsx, ExecutorDied

RULE = ("census of every documented random source on 16 threads of one process and in a second process, real randomness only "
        "(interposed generator in passthrough mode): values of >= 8 bytes must never repeat across calls, objects, threads and "
        "processes; 4-byte sources may show at most 3 repeated values among 4096 draws (P < 1e-12 for a uniform source); every byte "
        "position takes >= 200 distinct values and every bit is set in 25..75 % of >= 2048 draws; private keys are tested on the "
        "hook-logged bytes only when the model reproduces the public key from them; card digits are 0..9 with 5..15 % each. "
        "distinct = (source, byte position) cells that passed the variability test + distinct values seen per source")

THREADS = 16


# cards whose size is not a multiple of 2, 4, 8 or 16 digits, down to a single digit (digit count, height, width)
ODD_CARDS = [(1, 1, 1), (1, 1, 3), (1, 1, 5), (1, 1, 7), (1, 3, 3), (1, 13, 1), (1, 3, 5), (3, 3, 3), (2, 5, 5), (3, 7, 9), (1, 9, 17), (5, 7, 7)]


def census(w, src, n, threads, **kw):
    src = "mc_card" if src.startswith("mc_card") else src
    ev = w.call("census", src=src, n=n, threads=threads, u="CENSUS", p="CENSUSPW", v=kw.pop("v"), salt=kw.pop("salt"), **kw)
    if ev.status != "ok":
        return None, ev
    per_thread = []
    for t in range(threads):
        per_thread.append(ev.f["t%d" % t].split(","))
    return per_thread, ev


def per_byte(mon, name, values, viol):
    """values: list of equal-length bytes objects."""
    n = len(values)
    if n < 2048:
        mon.inconc("%s: only %d draws, per-byte variability needs >= 2048" % (name, n))
        return
    L = len(values[0])
    for pos in range(L):
        col = [v[pos] for v in values]
        distinct = len(set(col))
        ok = distinct >= 200
        bits_ok = True
        for bit in range(8):
            ones = sum((c >> bit) & 1 for c in col)
            frac = ones / n
            if frac < 0.25 or frac > 0.75:
                bits_ok = False
                viol("%s:bit_stuck" % name, "%s: byte %d bit %d is set in %.1f%% of %d draws" % (name, pos, bit, 100 * frac, n))
        if not ok:
            viol("%s:byte_low_variability" % name, "%s: byte position %d takes only %d distinct values over %d draws" % (name, pos, distinct, n))
        if ok and bits_ok:
            mon.cell((name, pos))
    mon.count("byte_positions_tested", L)


def distinct_check(mon, name, values, viol, max_repeats=0, other=None):
    c = collections.Counter(values)
    repeats = sum(k - 1 for k in c.values() if k > 1)
    mon.count("values:%s" % name, len(values))
    mon.count("distinct_values:%s" % name, len(c))
    mon.ev(len(values))
    if repeats > max_repeats:
        worst = c.most_common(1)[0]
        viol("%s:repeats" % name, "%s: %d repeated values among %d draws (most common %s seen %d times)" % (
            name, repeats, len(values), worst[0].hex(), worst[1]))
    if other is not None:
        shared = len(set(values) & set(other))
        if shared > max_repeats:
            viol("%s:repeats_across_processes" % name, "%s: %d values occur in both processes (%d and %d draws)" % (name, shared, len(values), len(other)))


def run(tier, seed):
    mon = Monitor()
    scale = {"quick": 1, "thorough": 64}[tier]
    un, pn = "CENSUS", "CENSUSPW"
    salt0 = bytes(range(32))
    v0 = M.to_le(M.calc_v(un, pn, salt0))

    def viol(sig, what):
        src = sig.split(":")[0].split("@")[0]
        extra = ""
        dims = {"mc_card": (2, 8, 8), "mc_card_big": (4, 26, 26), "mc_card_mid": (3, 10, 12), "mc_card_bulk": (1, 8, 10)}
        if src.startswith("mc_card_odd_"):
            dims[src] = tuple(int(x) for x in src[len("mc_card_odd_"):].split("x"))
        if src in dims:
            extra = "\tdc=%d\tch=%d\tcw=%d" % dims[src]
            src = "mc_card"
        mon.violation("c15:" + sig, what, {"engine": "wsx", "kind": "raw", "commands": [
            "census\tsrc=%s\tn=64\tthreads=2\tu=%s\tp=%s\tv=%s\tsalt=%s\trefresh=4%s" % (src, un.encode().hex(), pn.encode().hex(), v0.hex(), salt0.hex(), extra)]})

    procs = [Wsx(), Wsx()]
    results = [{}, {}]
    try:
        for pi, w in enumerate(procs):
            threads = THREADS if pi == 0 else 2
            mult = scale if pi == 0 else 1
            plan = [
                ("salt", 4096 * mult // threads if pi == 0 else 1024, {}),
                ("exchange", 256 * mult if pi == 0 else 128, {"refresh": 6}),
                ("vseed", 256 if pi == 0 else 2048, {}),
                ("tseed", 256 if pi == 0 else 2048, {}),
                ("wseed", 256 if pi == 0 else 2048, {}),
                ("pin_seed", 256 if pi == 0 else 2048, {}),
                ("vseed_d", 256 if pi == 0 else 2048, {}),
                ("tseed_d", 256 if pi == 0 else 2048, {}),
                ("wseed_d", 256 if pi == 0 else 2048, {}),
                ("integrity_salt", 4096 * mult // threads if pi == 0 else 1024, {}),
                ("pin_salt", 4096 * mult // threads if pi == 0 else 1024, {}),
                ("mc_seed", 4096 * mult // threads if pi == 0 else 1024, {}),
                ("mixed", 400 * mult if pi == 0 else 400, {"mixseed": 1 + pi}),
                ("seeds_mixed", 50 if pi == 0 else 400, {}),
                ("proof_clones", 16 if pi == 0 else 64, {}),
                ("mc_card", 64 * mult if pi == 0 else 64, {"dc": 2, "ch": 8, "cw": 8}),
                ("mc_card_big", 4 * mult if pi == 0 else 4, {"dc": 4, "ch": 26, "cw": 26}),
                ("mc_card_mid", 8 * mult if pi == 0 else 8, {"dc": 3, "ch": 10, "cw": 12}),
            ]
            if pi == 0:
                # very many cards of one customary geometry: whole cards never repeat (a card that is a function of a
                # 32-bit draw repeats after some 10^5 cards)
                plan.append(("mc_card_bulk", 12500 * (2 if mult > 1 else 1), {"dc": 1, "ch": 8, "cw": 10}))
                for (dc, ch, cw) in ODD_CARDS:
                    plan.append(("mc_card_odd_%dx%dx%d" % (dc, ch, cw), 32, {"dc": dc, "ch": ch, "cw": cw}))
            for src, n, kw in plan:
                per_thread, ev = census(w, src, n, threads, v=v0, salt=salt0, **kw)
                if per_thread is None:
                    if ev.status == "panic" or ev.f.get("stage") == "census_panic":
                        viol("%s:panic" % src, "generator %s panicked: %s" % (src, ev.f))
                    else:
                        mon.inconc("census of %s failed: %s" % (src, ev.f))
                    continue
                results[pi][src] = per_thread
    except ExecutorDied as e:
        mon.violation("c15:executor_died", "executor died rc=%s" % e.rc, {"engine": "wsx", "kind": "raw", "commands": e.last_cmds})
    finally:
        for w in procs:
            w.close()

    def flat(pi, src):
        return [bytes.fromhex(x) for t in results[pi].get(src, []) for x in t if x]

    # ---- mixed workload: every value handed out directly, cut into 16-byte blocks, must be new
    blocks = collections.Counter()
    pubs = collections.Counter()
    nmixed = 0
    first_seen = {}
    for pi in (0, 1):
        for t in results[pi].get("mixed", []):
            for item in t:
                for part in item.split("/"):
                    k, _, val = part.partition("=")
                    if not val:
                        continue
                    nmixed += 1
                    raw = bytes.fromhex(val)
                    if k in ("B", "A"):
                        pubs[raw] += 1
                    else:
                        for o in range(0, len(raw), 16):
                            blk = raw[o:o + 16]
                            blocks[blk] += 1
                            first_seen.setdefault(blk, k)
    if nmixed:
        mon.count("mixed_workload_values", nmixed)
        mon.count("mixed_workload_16_byte_blocks", sum(blocks.values()))
        mon.ev(nmixed)
        rep = [(b, n) for b, n in blocks.items() if n > 1]
        if rep:
            b, n = rep[0]
            viol("mixed:block_repeats", "in a randomly ordered mix of salt / key / challenge draws on one thread %d of %d 16-byte blocks handed out were "
                 "handed out before (e.g. %s, %d times, first as %s)" % (len(rep), len(blocks), b.hex(), n, first_seen[b]))
        else:
            mon.cell(("mixed", "blocks_unique"))
        rep2 = [(b, n) for b, n in pubs.items() if n > 1]
        if rep2:
            viol("mixed:public_key_repeats", "in a mixed workload %d public keys repeated (e.g. %s)" % (len(rep2), rep2[0][0].hex()))
    else:
        mon.inconc("the mixed-order workload produced no values")
    # ---- 4-byte seeds of the three expansion modules and the PIN grid seed drawn alternately on one thread
    pooled = []
    for pi in (0, 1):
        for t in results[pi].get("seeds_mixed", []):
            for item in t:
                pooled.extend(bytes.fromhex(x) for x in item.split("/") if x)
    if pooled:
        distinct_check(mon, "seeds_of_all_modules_drawn_alternately", pooled, viol, max_repeats=3)
    else:
        mon.inconc("no alternately drawn module seeds observed")
    # ---- servers that stem from copies of one pending SrpProof: every one draws its own first reconnect challenge
    firsts = []
    for pi in (0, 1):
        for t in results[pi].get("proof_clones", []):
            for item in t:
                firsts.extend(bytes.fromhex(x) for x in item.split("/") if x)
    if firsts:
        distinct_check(mon, "proof_clones", firsts, viol)
        mon.cell(("proof_clones", "first_challenges_unique"))
    else:
        mon.inconc("no servers built from copies of one SrpProof observed")
    # ---- simple sources
    for src, width in (("salt", 32), ("integrity_salt", 16), ("pin_salt", 16), ("mc_seed", 8)):
        a, b = flat(0, src), flat(1, src)
        if not a:
            mon.inconc("no values observed for %s" % src)
            continue
        distinct_check(mon, src, a + b, viol, max_repeats=(1 if width == 8 else 0))
        # per thread sequences must differ across threads too (covered by global distinctness)
        per_byte(mon, src, a + b, viol)
        mon.sample({"source": src, "first": a[0].hex(), "draws": len(a) + len(b)}, cap=12)
    for src in ("vseed", "tseed", "wseed", "pin_seed", "vseed_d", "tseed_d", "wseed_d"):
        a, b = flat(0, src), flat(1, src)
        if not a:
            mon.inconc("no values observed for %s" % src)
            continue
        distinct_check(mon, src + "@proc0", a, viol, max_repeats=3, other=b)
        distinct_check(mon, src + "@proc1", b, viol, max_repeats=3)
        per_byte(mon, src, a + b, viol)
        mon.sample({"source": src, "first": a[0].hex(), "draws": len(a) + len(b)}, cap=12)
    # ---- card digits
    cards = flat(0, "mc_card") + flat(1, "mc_card")
    if cards:
        distinct_check(mon, "mc_card", cards, viol)
        digits = collections.Counter()
        bad = 0
        for c in cards:
            for d in c:
                if d > 9:
                    bad += 1
                digits[d] += 1
        tot = sum(digits.values())
        mon.count("card_digits", tot)
        if bad:
            viol("mc_card:digit_out_of_range", "%d of %d card digits are outside 0..9 (values seen: %s)" % (bad, tot, sorted(digits)))
        if tot >= 50000:
            for d in range(10):
                f = digits[d] / tot
                if f < 0.05 or f > 0.15:
                    viol("mc_card:digit_frequency", "digit %d has frequency %.2f%% over %d digits" % (d, 100 * f, tot))
                else:
                    mon.cell(("mc_card_digit", d))
        else:
            mon.inconc("only %d card digits observed; the frequency test needs >= 50000" % tot)
        # per cell position: digits vary
        L = len(cards[0])
        for pos in range(L):
            if len({c[pos] for c in cards}) < 8 and len(cards) >= 200:
                viol("mc_card:position_low_variability", "card digit position %d takes only %d values over %d cards" % (pos, len({c[pos] for c in cards}), len(cards)))
        mon.sample({"source": "mc_card", "first": cards[0].hex()[:32] + "..", "cards": len(cards)}, cap=12)
    else:
        mon.inconc("no matrix cards observed")
    # ---- larger cards: digits inside one card must not repeat with any period (lag test)
    for src in ("mc_card_big", "mc_card_mid", "mc_card"):
        big = flat(0, src) + flat(1, src)
        if not big:
            mon.inconc("no cards observed for %s" % src)
            continue
        if src != "mc_card":
            distinct_check(mon, src, big, viol)
        L = len(big[0])
        worst = (0.0, 0, 0)
        for lag in range(1, min(L // 2, 600) + 1):
            eq = tot = 0
            for c in big[:24]:
                for i in range(0, L - lag):
                    tot += 1
                    if c[i] == c[i + lag]:
                        eq += 1
            if tot >= 100:
                f = eq / tot
                if f > worst[0]:
                    worst = (f, lag, tot)
        mon.count("card_lags_tested:%s" % src, min(L // 2, 600))
        if worst[0] > 0.5:
            viol("%s:digits_repeat_within_card" % src, "%s (%d digits): %.0f%% of digit pairs at distance %d are equal (%d pairs); independent digits give about 10%%" % (
                src, L, 100 * worst[0], worst[1], worst[2]))
        else:
            mon.cell(("card_lag", src))
        bad = sum(1 for c in big for d in c if d > 9)
        if bad:
            viol("%s:digit_out_of_range" % src, "%d digits outside 0..9" % bad)
    # ---- cards of odd sizes: the expected number of digits, every position varies, digits in range, no repeats where the
    #      card is long enough for a repeat to be impossible by chance
    for (dc, ch, cw) in ODD_CARDS:
        src = "mc_card_odd_%dx%dx%d" % (dc, ch, cw)
        cs = flat(0, src)
        if not cs:
            mon.inconc("no cards observed for %s" % src)
            continue
        L = dc * ch * cw
        mon.ev(len(cs))
        mon.count("odd_size_cards", len(cs))
        wrong = [c for c in cs if len(c) != L]
        if wrong:
            viol("%s:card_size" % src, "MatrixCard::new(%d, %d, %d) holds %d digits, expected %d" % (dc, ch, cw, len(wrong[0]), L))
            continue
        if any(d > 9 for c in cs for d in c):
            viol("%s:digit_out_of_range" % src, "digits outside 0..9 on a %d-digit card" % L)
        stuck = [pos for pos in range(L) if len({c[pos] for c in cs}) < 8]
        if len(cs) < 200:
            mon.inconc("%s: only %d cards, the per-position test needs >= 200" % (src, len(cs)))
        elif stuck:
            pos = stuck[-1]
            viol("%s:position_low_variability" % src, "MatrixCard::new(%d, %d, %d): digit position %d of %d takes only the values %s over %d cards (%d such positions)" % (
                dc, ch, cw, pos, L, sorted({c[pos] for c in cs}), len(cs), len(stuck)))
        else:
            mon.cell(("odd_card_positions_vary", src))
        if L >= 13:
            distinct_check(mon, src, cs, viol)
    bulk = flat(0, "mc_card_bulk")
    if bulk:
        distinct_check(mon, "mc_card_bulk", bulk, viol)
        mon.cell(("mc_card_bulk", "whole_cards_unique"))
    else:
        mon.inconc("no bulk cards observed")
    # ---- exchanges: b via B, a via A, challenges
    groups = collections.defaultdict(list)
    draws = {"B": [], "A": []}
    attributed = {"B": 0, "A": 0}
    unattributed = {"B": 0, "A": 0}
    verdict_letters = collections.Counter()
    for pi in (0, 1):
        for t in results[pi].get("exchange", []):
            for item in t:
                if not item:
                    continue
                for part in item.split("/"):
                    k, _, val = part.partition("=")
                    if k in ("B", "A"):
                        pub, _, d = val.partition(":")
                        pub = bytes.fromhex(pub)
                        groups[(k, pi)].append(pub)
                        dl = [bytes.fromhex(x) for x in d.split("+") if x]
                        ok = False
                        from sessions import key_candidates
                        for cand in key_candidates(dl):
                            key = M.le(cand)
                            if k == "B":
                                ok = M.to_le(M.calc_B(M.le(v0), key)) == pub
                            else:
                                ok = M.to_le(M.calc_A(key)) == pub
                            if ok:
                                dl = [cand]
                                break
                        if ok:
                            attributed[k] += 1
                            draws[k].append(dl[0])
                        else:
                            unattributed[k] += 1
                    else:
                        if k.startswith("R"):
                            verdict_letters[k] += 1
                            k2 = "R"
                        else:
                            k2 = k
                        groups[(k2, pi)].append(bytes.fromhex(val))
    names = {"B": "server_private_key(via B)", "A": "client_private_key(via A)", "C0": "server_challenge_at_creation",
             "R": "server_challenge_after_attempt", "CC": "client_reconnect_challenge"}
    for k, nm in names.items():
        a, b = groups.get((k, 0), []), groups.get((k, 1), [])
        if not a:
            mon.inconc("no values observed for %s" % nm)
            continue
        distinct_check(mon, nm, a + b, viol)
        if k in ("C0", "R", "CC"):
            per_byte(mon, nm, a + b, viol)
        mon.sample({"source": nm, "first": a[0].hex(), "draws": len(a) + len(b)}, cap=12)
    # server challenges: creation values and refreshed values together never repeat (refresh must not re-use the creation value)
    allc = groups.get(("C0", 0), []) + groups.get(("R", 0), []) + groups.get(("C0", 1), []) + groups.get(("R", 1), [])
    if allc:
        distinct_check(mon, "server_challenges_all", allc, viol)
    if verdict_letters.get("RX") or verdict_letters.get("RY") or verdict_letters.get("RZ"):
        mon.note("census saw unexpected reconnect verdicts %s (C05's business)" % dict(verdict_letters))
    mon.count("refresh_after_accepted_attempt", verdict_letters.get("Ra", 0))
    mon.count("refresh_after_rejected_attempt", verdict_letters.get("Rr", 0))
    mon.count("refresh_after_attempt_echoing_the_challenge", verdict_letters.get("Re", 0))
    for k in ("B", "A"):
        nm = names[k]
        mon.count("private_key_draws_attributed:%s" % k, attributed[k])
        if attributed[k] >= 2048 and unattributed[k] == 0:
            per_byte(mon, nm + ":logged_draw", draws[k], viol)
            distinct_check(mon, nm + ":logged_draw", draws[k], viol)
        else:
            mon.inconc("%s: the hook-logged draw explains the public key in only %d of %d exchanges; per-byte test of the private "
                       "key is inconclusive, distinctness of the public key decides" % (nm, attributed[k], attributed[k] + unattributed[k]))
    return mon


def replay(sc):
    return Monitor()
