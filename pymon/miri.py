"""Run wsm workloads under Miri (UB interpreter + data-race detector), DESIGN.md 3.5."""
import os
import re
import subprocess
import time

from common import ROOT

HARNESS = os.path.join(ROOT, "harness")


def run_wsm_under_miri(prop, seeds, verif_seed, mon, what, timeout=3600, extra_flags=""):
    """seeds: (lo, hi) for -Zmiri-many-seeds. Adds counters/violations/inconclusive to mon."""
    env = dict(os.environ, CARGO_NET_OFFLINE="true")
    flags = "-Zmiri-disable-isolation -Zmiri-many-seeds=%d..%d %s" % (seeds[0], seeds[1], extra_flags)
    env["MIRIFLAGS"] = flags.strip()
    cmd = ["cargo", "+nightly", "miri", "run", "--offline", "-q", "-p", "wsm", "--", prop, "--tier", "miri", "--seed", str(verif_seed)]
    t0 = time.time()
    try:
        r = subprocess.run(cmd, cwd=HARNESS, env=env, stdout=subprocess.PIPE, stderr=subprocess.PIPE, timeout=timeout)
    except subprocess.TimeoutExpired:
        mon.inconc("Miri watchdog fired after %ds for %s (%s); inconclusive" % (timeout, prop, what))
        return
    out = r.stdout.decode(errors="replace")
    err = r.stderr.decode(errors="replace")
    runs = len(re.findall(r"^EVAL\t", out, re.M))
    evals = sum(int(x) for x in re.findall(r"^EVAL\t(\d+)", out, re.M))
    mon.count("miri_seeds_completed", runs)
    mon.count("miri_monitor_evaluations", evals)
    mon.note("Miri: %s, MIRIFLAGS=%s, %d interpreter runs completed in %.0fs" % (what, flags.strip(), runs, time.time() - t0))
    for line in out.splitlines():
        if line.startswith("VIOLATION\t"):
            p = line.split("\t")
            mon.violation(p[1] + ":under_miri", p[2], {"engine": "wsm", "args": p[3].split(" ") if len(p) > 3 else [], "under": "miri"})
    ub = re.findall(r"error: (Undefined Behavior|unsupported operation|memory leaked|[Dd]ata race)[^\n]*", err)
    if "Undefined Behavior" in err or "Data race" in err or "data race" in err:
        first = re.search(r"error: .*", err)
        mon.violation("%s:miri_report" % prop.lower(), "Miri reported: %s" % (first.group(0)[:300] if first else "?"),
                      {"engine": "miri", "cmd": " ".join(cmd), "flags": flags})
    elif r.returncode != 0 and runs < (seeds[1] - seeds[0]):
        if "memory leaked" in err:
            mon.violation("%s:miri_leak" % prop.lower(), "Miri reported a memory leak", {"engine": "miri", "cmd": " ".join(cmd), "flags": flags})
        elif not any(l.startswith("VIOLATION\t") for l in out.splitlines()):
            mon.inconc("Miri run for %s exited with %d after %d of %d seeds: %s" % (
                prop, r.returncode, runs, seeds[1] - seeds[0], err[-400:].replace("\n", " / ")))
    if runs == 0:
        mon.inconc("no Miri run completed for %s" % prop)
    mon.ev(evals)
    mon.cell(("miri", prop, runs))
