"""Run wsm workloads under Miri (UB interpreter + data-race detector), DESIGN.md 3.5."""
import os
import re
import subprocess
import time

from common import ROOT

HARNESS = os.path.join(ROOT, "harness")


def run_wsm_under_miri(prop, seeds, verif_seed, mon, what, timeout=3600, extra_flags=""):
    """seeds: (lo, hi) for -Zmiri-many-seeds. Adds counters/violations/inconclusive to mon."""
    env = dict(os.environ, CARGO_NET_OFFLINE="true")
    flags = "-Zmiri-disable-isolation -Zmiri-many-seeds=%d..%d %s" % (seeds[0], seeds[1], extra_flags)
    env["MIRIFLAGS"] = flags.strip()
    cmd = ["cargo", "+nightly", "miri", "run", "--offline", "-q", "-p", "wsm", "--", prop, "--tier", "miri", "--seed", str(verif_seed)]
    t0 = time.time()
    try:
        r = subprocess.run(cmd, cwd=HARNESS, env=env, stdout=subprocess.PIPE, stderr=subprocess.PIPE, timeout=timeout)
    except subprocess.TimeoutExpired:
        mon.inconc("Miri watchdog fired after %ds for %s (%s); inconclusive" % (timeout, prop, what))
        return
    out = r.stdout.decode(errors="replace")
    err = r.stderr.decode(errors="replace")
    runs = len(re.findall(r"^EVAL\t", out, re.M))
    evals = sum(int(x) for x in re.findall(r"^EVAL\t(\d+)", out, re.M))
    mon.count("miri_seeds_completed", runs)
    mon.count("miri_monitor_evaluations", evals)
    mon.note("Miri: %s, MIRIFLAGS=%s, %d interpreter runs completed in %.0fs" % (what, flags.strip(), runs, time.time() - t0))
    for line in out.splitlines():
        if line.startswith("VIOLATION\t"):
            p = line.split("\t")
            mon.violation(p[1] + ":under_miri", p[2], {"engine": "wsm", "args": p[3].split(" ") if len(p) > 3 else [], "under": "miri"})
    ub = re.findall(r"error: (Undefined Behavior|unsupported operation|memory leaked|[Dd]ata race)[^\n]*", err)
    if "Undefined Behavior" in err or "Data race" in err or "data race" in err:
        first = re.search(r"error: .*", err)
        mon.violation("%s:miri_report" % prop.lower(), "Miri reported: %s" % (first.group(0)[:300] if first else "?"),
                      {"engine": "miri", "cmd": " ".join(cmd), "flags": flags})
    elif r.returncode != 0 and runs < (seeds[1] - seeds[0]):
        if "memory leaked" in err:
            mon.violation("%s:miri_leak" % prop.lower(), "Miri reported a memory leak", {"engine": "miri", "cmd": " ".join(cmd), "flags": flags})
        elif not any(l.startswith("VIOLATION\t") for l in out.splitlines()):
            mon.inconc("Miri run for %s exited with %d after %d of %d seeds: %s" % (
                prop, r.returncode, runs, seeds[1] - seeds[0], err[-400:].replace("\n", " / ")))
    if runs == 0:
        mon.inconc("no Miri run completed for %s" % prop)
    mon.ev(evals)
    mon.cell(("miri", prop, runs))


def run_multi(prop, verif_seeds, many, mon, what, parallel=8, timeout=5400):
    """Several interpreter processes in parallel, one per workload seed; each runs `many` scheduler seeds."""
    env = dict(os.environ, CARGO_NET_OFFLINE="true")
    flags = "-Zmiri-disable-isolation" + (" -Zmiri-many-seeds=0..%d" % many if many > 1 else "")
    env["MIRIFLAGS"] = flags
    t0 = time.time()
    # build once so that the parallel runs do not wait on the cargo lock one after the other
    subprocess.run(["cargo", "+nightly", "miri", "run", "--offline", "-q", "-p", "wsm"], cwd=HARNESS, env=env,
                   stdout=subprocess.PIPE, stderr=subprocess.PIPE)
    pending = list(verif_seeds)
    running = []
    done_runs = 0
    evals = 0
    deadline = t0 + timeout
    while pending or running:
        while pending and len(running) < parallel:
            vs = pending.pop(0)
            cmd = ["cargo", "+nightly", "miri", "run", "--offline", "-q", "-p", "wsm", "--", prop, "--tier", "miri", "--seed", str(vs)]
            p = subprocess.Popen(cmd, cwd=HARNESS, env=env, stdout=subprocess.PIPE, stderr=subprocess.PIPE)
            running.append((vs, p, cmd))
        time.sleep(0.5)
        still = []
        for vs, p, cmd in running:
            if p.poll() is None:
                if time.time() > deadline:
                    p.kill()
                    mon.inconc("Miri watchdog fired for %s workload seed %s (inconclusive)" % (prop, vs))
                else:
                    still.append((vs, p, cmd))
                continue
            out = p.stdout.read().decode(errors="replace")
            err = p.stderr.read().decode(errors="replace")
            runs = len(re.findall(r"^EVAL\t", out, re.M))
            done_runs += runs
            evals += sum(int(x) for x in re.findall(r"^EVAL\t(\d+)", out, re.M))
            for line in out.splitlines():
                if line.startswith("VIOLATION\t"):
                    q = line.split("\t")
                    mon.violation(q[1] + ":under_miri", q[2], {"engine": "wsm", "args": q[3].split(" ") if len(q) > 3 else [], "under": "miri", "seed": vs})
            if "Undefined Behavior" in err or "Data race" in err or "data race" in err:
                first = re.search(r"error: .*", err)
                mon.violation("%s:miri_report" % prop.lower(), "Miri reported: %s" % (first.group(0)[:300] if first else "?"),
                              {"engine": "miri", "cmd": " ".join(cmd), "flags": flags})
            elif "memory leaked" in err:
                mon.violation("%s:miri_leak" % prop.lower(), "Miri reported a memory leak", {"engine": "miri", "cmd": " ".join(cmd), "flags": flags})
            elif p.returncode not in (0, 1) or runs == 0:
                mon.inconc("Miri run for %s (workload seed %s) exited with %d after %d runs: %s" % (prop, vs, p.returncode, runs, err[-300:].replace("\n", " / ")))
        running = still
    mon.count("miri_seeds_completed", done_runs)
    mon.count("miri_monitor_evaluations", evals)
    mon.count("miri_workload_seeds", len(verif_seeds))
    mon.ev(evals)
    mon.cell(("miri", prop, done_runs))
    mon.note("Miri: %s; MIRIFLAGS=%s; %d workload seeds x %d scheduler seeds, %d interpreter runs completed in %.0fs" % (
        what, flags, len(verif_seeds), many, done_runs, time.time() - t0))
    if done_runs == 0:
        mon.inconc("no Miri run completed for %s" % prop)
