//! wsf — the same checks as the big monitors, reduced to a smoke level, on builds of wow_srp with reduced feature sets.
//! Output: lines `EVAL <n>`, `VIOL <signature>\t<what>`.
#[path = "../../harness/inproc/src/util.rs"]
#[allow(dead_code)]
mod util;

use std::panic::{catch_unwind, AssertUnwindSafe};
use util::Rng;
use wow_srp::client::SrpClientChallenge;
use wow_srp::normalized_string::NormalizedString;
use wow_srp::server::SrpVerifier;
use wow_srp::PublicKey;

fn viol(sig: &str, what: String) {
    println!("VIOL {}\t{}", sig, what.replace(['\n', '\t'], " "));
}

fn login_sweeps(rng: &mut Rng, evals: &mut u64) {
    for round in 0..6 {
        let u = NormalizedString::new(format!("Feat{}", round)).unwrap();
        let p = NormalizedString::new("combination").unwrap();
        let proof = SrpVerifier::from_username_and_password(u.clone(), p.clone()).into_proof();
        let bpk = PublicKey::from_le_bytes(*proof.server_public_key()).unwrap();
        let chal = SrpClientChallenge::new(u, p, wow_srp::GENERATOR, wow_srp::LARGE_SAFE_PRIME_LITTLE_ENDIAN, bpk, *proof.salt());
        let a_pub = *chal.client_public_key();
        let m1 = *chal.client_proof();
        // every single-bit change and a few cancelling changes of M1 are refused
        let mut cands: Vec<[u8; 20]> = Vec::new();
        for bit in 0..160 {
            let mut x = m1;
            x[bit / 8] ^= 1 << (bit % 8);
            cands.push(x);
        }
        for _ in 0..40 {
            let (i, j) = (rng.below(20) as usize, rng.below(20) as usize);
            if i != j {
                let mut x = m1;
                let m = 1u8 << rng.below(8);
                x[i] ^= m;
                x[j] ^= m;
                cands.push(x);
            }
        }
        for (ci, x) in cands.iter().enumerate() {
            *evals += 1;
            let apk = PublicKey::from_le_bytes(a_pub).unwrap();
            match catch_unwind(AssertUnwindSafe(|| proof.clone().into_server(apk, *x).is_ok())) {
                Ok(false) => {}
                Ok(true) => viol("accept_of_wrong:M1", format!("a client proof changed in candidate {} (bit {} if < 160) was accepted", ci, ci)),
                Err(_) => viol("panic:into_server", "into_server panicked on a changed proof".into()),
            }
        }
        let apk = PublicKey::from_le_bytes(a_pub).unwrap();
        let (mut server, m2) = match proof.into_server(apk, m1) {
            Ok(x) => x,
            Err(e) => {
                viol("reject_of_correct", format!("honest login refused: {}", e));
                continue;
            }
        };
        for bit in 0..160 {
            *evals += 1;
            let mut x = m2;
            x[bit / 8] ^= 1 << (bit % 8);
            if let Ok(true) = catch_unwind(AssertUnwindSafe(|| chal.clone().verify_server_proof(x).is_ok())) {
                viol("client_accept_of_wrong:M2", format!("a server proof with bit {} changed was accepted", bit));
            }
        }
        let client = match chal.verify_server_proof(m2) {
            Ok(c) => c,
            Err(e) => {
                viol("client_reject_of_correct", format!("honest server proof refused: {}", e));
                continue;
            }
        };
        if *client.session_key() != *server.session_key() {
            viol("keys_differ", "session keys differ".into());
        }
        // reconnect: right proof accepted, every single-bit change refused
        for bit in (0..160).step_by(1) {
            *evals += 1;
            let r = client.calculate_reconnect_values(*server.reconnect_challenge_data());
            let mut x = r.proof;
            x[bit / 8] ^= 1 << (bit % 8);
            if server.verify_reconnection_attempt(r.challenge_data, x) {
                viol("reconnect_accept_of_wrong", format!("a reconnect proof with bit {} changed was accepted", bit));
            }
        }
        let r = client.calculate_reconnect_values(*server.reconnect_challenge_data());
        *evals += 1;
        if !server.verify_reconnection_attempt(r.challenge_data, r.proof) {
            viol("reconnect_reject_of_correct", "the legitimate reconnect was refused".into());
        }
    }
}

#[cfg(feature = "tbc")]
fn tbc(rng: &mut Rng, evals: &mut u64) {
    use util::{tbc_key, ModelAdd};
    use wow_srp::tbc_header::ProofSeed;
    for _ in 0..200 {
        let k: [u8; 40] = rng.arr();
        let n = NormalizedString::new("FEATTBC").unwrap();
        let (cs, ss) = (ProofSeed::new(), ProofSeed::new());
        let csv = cs.seed();
        let (proof, mut c) = cs.into_client_header_crypto(&n, k, ss.seed());
        let mut s = match ss.into_server_header_crypto(&n, k, proof, csv) {
            Ok(s) => s,
            Err(_) => {
                viol("tbc:honest_world_login_refused", "honest world login refused".into());
                continue;
            }
        };
        let mut m = ModelAdd::new(&tbc_key(&k));
        let pl = 1 + rng.below(120) as usize;
        let plain = rng.bytes(pl);
        let mut want = plain.clone();
        m.enc(&mut want);
        let mut wire = plain.clone();
        c.encrypt(&mut wire);
        *evals += 1;
        if wire != want {
            viol("tbc:ciphertext_differs_from_definition", format!("TBC ciphertext differs from the recurrence keyed by HMAC-SHA1(TBC seed, K) in this feature set (key {})", util::hex(&k)));
            return;
        }
        s.decrypt(&mut wire);
        if wire != plain {
            viol("tbc:receiver_does_not_recover_plaintext", "TBC round trip fails in this feature set".into());
            return;
        }
    }
}

#[cfg(feature = "wrath")]
fn wrath(rng: &mut Rng, evals: &mut u64) {
    use util::{wrath_model, WRATH_R, WRATH_S};
    use wow_srp::wrath_header::ProofSeed;
    for _ in 0..200 {
        let k: [u8; 40] = rng.arr();
        let n = NormalizedString::new("FEATWRATH").unwrap();
        let (cs, ss) = (ProofSeed::new(), ProofSeed::new());
        let csv = cs.seed();
        let (proof, mut c) = cs.into_client_header_crypto(&n, k, ss.seed());
        let mut s = match ss.into_server_header_crypto(&n, k, proof, csv) {
            Ok(s) => s,
            Err(_) => {
                viol("wrath:honest_world_login_refused", "honest world login refused".into());
                continue;
            }
        };
        for (dir, cst) in [(0, &WRATH_S), (1, &WRATH_R)] {
            let mut m = wrath_model(cst, &k);
            let pl = 1 + rng.below(120) as usize;
        let plain = rng.bytes(pl);
            let mut want = plain.clone();
            m.xor(&mut want);
            let mut wire = plain.clone();
            if dir == 0 {
                c.encrypt(&mut wire);
            } else {
                s.encrypt(&mut wire);
            }
            *evals += 1;
            if wire != want {
                viol("wrath:wire_differs_from_definition", format!("Wrath wire bytes differ from RC4-drop1024 keyed by HMAC-SHA1(constant, K) in this feature set (key {})", util::hex(&k)));
                return;
            }
            if dir == 0 {
                s.decrypt(&mut wire);
            } else {
                c.decrypt(&mut wire);
            }
            if wire != plain {
                viol("wrath:receiver_does_not_recover_plaintext", "Wrath round trip fails in this feature set".into());
                return;
            }
        }
    }
}

fn main() {
    let seed: u64 = std::env::args().nth(1).and_then(|s| s.parse().ok()).unwrap_or(1);
    let mut rng = Rng::new(seed, 0xfea7);
    let mut evals = 0u64;
    std::panic::set_hook(Box::new(|_| {}));
    login_sweeps(&mut rng, &mut evals);
    #[cfg(feature = "tbc")]
    tbc(&mut rng, &mut evals);
    #[cfg(feature = "wrath")]
    wrath(&mut rng, &mut evals);
    println!("EVAL {}", evals);
}
